//! C01 / C02 — the real `Segtree` explored by breadth-first search over its own node array.
//!
//! C01: constructors, set, modify, ask, debug — every action in every reached state, every returned
//!      aggregate compared with the left-to-right fold of a plain array.
//! C02: the same state spaces (so every configuration of pending modifiers is reached) with the two
//!      boundary searches as judged transitions.

mod alg;

use alg::*;
use rlib_segtree::segtree_items::{Combinator, MaxAdd, MinAdd, SumAdd};
use rlib_segtree::Segtree;
use serde::{Deserialize, Serialize};
use std::cell::RefCell;
use vcore::*;

#[derive(Clone, Debug, Serialize, Deserialize)]
enum Act {
    FromSlice(Vec<u8>),
    FromIter(Vec<u8>),
    New(u8),
    /// the same constructors / point assignment fed with elements that carry a stale pending modifier
    FromSliceDirty(Vec<u8>),
    NewDirty(u8),
    SetDirty(u16, u8),
    Set(u16, u8),
    Modify(u16, u16, u8),
    Ask(u16, u16),
    Lb(u16, Pred),
    LbRev(u16, Pred),
    Debug,
}

struct St<A: Alg> {
    tree: Segtree<A::T, A::M>,
    model: Vec<A::E>,
    fresh: u32,
}

impl<A: Alg> Clone for St<A> {
    fn clone(&self) -> Self {
        St { tree: self.tree.clone(), model: self.model.clone(), fresh: self.fresh }
    }
}

#[derive(Clone, Copy, PartialEq)]
enum Mode {
    /// judge constructors / set / modify / ask / debug; no searches
    C01,
    /// judge the searches; the other actions only generate states
    C02,
}

struct Sys<A: Alg> {
    n: usize,
    mode: Mode,
    /// which constructor families start the search
    all_inits: bool,
    /// elements carry stale pending modifiers (read back from another tree)
    dirty: bool,
    /// range modifications not offered because they would take a covered element out of the domain
    /// (counted once per state they were withheld in)
    skipped: std::sync::atomic::AtomicU64,
    _p: std::marker::PhantomData<A>,
}

impl<A: Alg> Sys<A> {
    fn new(n: usize, mode: Mode, all_inits: bool) -> Self {
        Sys { n, mode, all_inits, dirty: false, skipped: std::sync::atomic::AtomicU64::new(0), _p: std::marker::PhantomData }
    }

    fn check_all_singles(&self, s: &St<A>) -> Result<(), String> {
        let mut t = s.tree.clone();
        for i in 0..self.n {
            let got = A::observe(&t.ask(i, i));
            let exp = A::fold(&s.model[i..=i]);
            if !A::accept(&got, &s.model[i..=i]) {
                return Err(format!("element {i}: ask({i},{i}) would return {:?}, the plain array holds {:?}", got, exp));
            }
        }
        // the whole range as well (root aggregate)
        let got = A::observe(&t.ask(0, self.n - 1));
        let exp = A::fold(&s.model[..]);
        if !A::accept(&got, &s.model[..]) {
            return Err(format!("ask(0,{}) would return {:?}, fold of the plain array is {:?}", self.n - 1, got, exp));
        }
        Ok(())
    }
}

fn fp<T: std::fmt::Debug>(x: &T) -> u64 {
    fnv(format!("{:?}", x).as_bytes())
}

impl<A: Alg> System for Sys<A> {
    type State = St<A>;
    type Action = Act;

    fn inits(&self) -> Vec<Act> {
        let k = A::n_elems();
        let mut v = vec![];
        // all element vectors of length n over the element alphabet
        let total = (k as u64).pow(self.n as u32);
        let mut vecs = vec![];
        for code in 0..total {
            let mut c = code;
            let mut xs = vec![];
            for _ in 0..self.n {
                xs.push((c % k as u64) as u8);
                c /= k as u64;
            }
            vecs.push(xs);
        }
        if self.dirty {
            let mut f = 0u32;
            if A::dirty_item_at(&A::elem(0, &mut f), 0).is_none() {
                return vec![];
            }
            for xs in &vecs {
                v.push(Act::FromSliceDirty(xs.clone()));
            }
            if A::fillable() {
                for e in 0..k {
                    v.push(Act::NewDirty(e as u8));
                }
            }
            return v;
        }
        for xs in &vecs {
            v.push(Act::FromIter(xs.clone()));
        }
        if self.all_inits {
            for xs in &vecs {
                v.push(Act::FromSlice(xs.clone()));
            }
            if A::fillable() {
                for e in 0..k {
                    v.push(Act::New(e as u8));
                }
            }
        }
        v
    }

    fn init(&self, a: &Act) -> Result<St<A>, String> {
        let mut fresh = 0u32;
        let (tree, model) = match a {
            Act::FromSlice(xs) => {
                let model: Vec<A::E> = xs.iter().map(|&i| A::elem(i as usize, &mut fresh)).collect();
                let items: Vec<A::T> = model.iter().enumerate().map(|(i, e)| A::item_at(e, i)).collect();
                (Segtree::<A::T, A::M>::from_slice(&items), model)
            }
            Act::FromIter(xs) => {
                let model: Vec<A::E> = xs.iter().map(|&i| A::elem(i as usize, &mut fresh)).collect();
                let items: Vec<A::T> = model.iter().enumerate().map(|(i, e)| A::item_at(e, i)).collect();
                (Segtree::<A::T, A::M>::from_iter(items.into_iter()), model)
            }
            Act::New(e) => {
                // `new(n, value)` fills the array with copies of one value (same id for the free algebra)
                let el = A::elem(*e as usize, &mut fresh);
                (Segtree::<A::T, A::M>::new(self.n, A::item(&el)), vec![el; self.n])
            }
            Act::FromSliceDirty(xs) => {
                let model: Vec<A::E> = xs.iter().map(|&i| A::elem(i as usize, &mut fresh)).collect();
                let items: Vec<A::T> = model.iter().enumerate().map(|(i, e)| A::dirty_item_at(e, i).unwrap()).collect();
                (Segtree::<A::T, A::M>::from_slice(&items), model)
            }
            Act::NewDirty(e) => {
                let el = A::elem(*e as usize, &mut fresh);
                (Segtree::<A::T, A::M>::new(self.n, A::dirty_item(&el).unwrap()), vec![el; self.n])
            }
            _ => return Err("not a constructor".into()),
        };
        Ok(St { tree, model, fresh })
    }

    fn actions(&self, s: &St<A>) -> Vec<Act> {
        let n = self.n as u16;
        let mut v = vec![];
        for i in 0..n {
            for e in 0..A::n_elems() as u8 {
                v.push(Act::Set(i, e));
                if self.dirty {
                    v.push(Act::SetDirty(i, e));
                }
            }
        }
        let nm = A::mods().len() as u8;
        for l in 0..n {
            for r in l..n {
                for m in 0..nm {
                    if A::HAS_DOMAIN {
                        let md = A::modifier(m as usize, l as usize);
                        if !s.model[l as usize..=r as usize].iter().all(|e| A::mod_ok(e, &md)) {
                            self.skipped.fetch_add(1, std::sync::atomic::Ordering::Relaxed);
                            continue;
                        }
                    }
                    v.push(Act::Modify(l, r, m));
                }
            }
        }
        for l in 0..n {
            for r in l..n {
                v.push(Act::Ask(l, r));
            }
        }
        if self.mode == Mode::C02 {
            for p in A::preds(self.n) {
                if !A::pred_ok(&p, &s.model) {
                    continue;
                }
                for i in 0..n {
                    v.push(Act::Lb(i, p.clone()));
                    v.push(Act::LbRev(i, p.clone()));
                }
            }
        } else {
            v.push(Act::Debug);
        }
        v
    }

    fn step(&self, s: &mut St<A>, a: &Act) -> Result<u64, String> {
        let judge01 = self.mode == Mode::C01;
        match a {
            Act::FromSlice(_) | Act::FromIter(_) | Act::New(_) | Act::FromSliceDirty(_) | Act::NewDirty(_) => Err("constructor inside a history".into()),
            Act::SetDirty(i, e) => {
                let el = A::elem(*e as usize, &mut s.fresh);
                s.tree.set(*i as usize, A::dirty_item_at(&el, *i as usize).unwrap());
                s.model[*i as usize] = el;
                Ok(0)
            }
            Act::Set(i, e) => {
                let el = A::elem(*e as usize, &mut s.fresh);
                s.tree.set(*i as usize, A::item_at(&el, *i as usize));
                s.model[*i as usize] = el;
                Ok(0)
            }
            Act::Modify(l, r, m) => {
                let md = &A::modifier(*m as usize, *l as usize);
                s.tree.modify(*l as usize, *r as usize, md);
                for (k, x) in s.model[*l as usize..=*r as usize].iter_mut().enumerate() {
                    A::apply_at(x, md, k);
                }
                Ok(0)
            }
            Act::Ask(l, r) => {
                let got = A::observe(&s.tree.ask(*l as usize, *r as usize));
                if judge01 {
                    let exp = A::fold(&s.model[*l as usize..=*r as usize]);
                    if !A::accept(&got, &s.model[*l as usize..=*r as usize]) {
                        return Err(format!("ask({l},{r}) returned {:?}; left-to-right fold of the plain array {:?} is {:?}", got, s.model, exp));
                    }
                }
                Ok(fp(&got))
            }
            Act::Debug => {
                let got = s.tree.debug();
                // the rendering must list exactly n items; its text is the items' own Debug, compared
                // through a second rendering obtained from single asks on a copy
                let mut t = s.tree.clone();
                let again = format!("{:?}", (0..self.n).map(|i| t.ask(i, i)).collect::<Vec<_>>());
                if got != again {
                    return Err(format!("debug() rendered {got}, single asks render {again}"));
                }
                Ok(0)
            }
            Act::Lb(l, p) => {
                let l = *l as usize;
                let log: RefCell<Vec<A::Obs>> = RefCell::new(vec![]);
                let got = s.tree.lower_bound(l, |t: &A::T| {
                    let o = A::observe(t);
                    let h = A::holds(p, &o);
                    log.borrow_mut().push(o);
                    h
                });
                let exp = (l..self.n).find(|&r| A::holds_on(p, &s.model, l, r));
                if got != exp {
                    return Err(format!("lower_bound({l}, {:?}) returned {:?}; smallest r with the predicate true on fold([{l}..=r]) of {:?} is {:?}", p, got, s.model, exp));
                }
                for o in log.into_inner() {
                    let ok = match A::obs_len(&o) {
                        Some(k) => k >= 1 && l + k <= self.n && A::accept(&o, &s.model[l..l + k]),
                        None => (l..self.n).any(|r| A::accept(&o, &s.model[l..=r])),
                    };
                    if !ok {
                        return Err(format!("lower_bound({l}, {:?}) showed the predicate the aggregate {:?}, which is not the in-order merge of [{l}..=r] for any r (array {:?})", p, o, s.model));
                    }
                }
                Ok(fp(&got))
            }
            Act::LbRev(r, p) => {
                let r = *r as usize;
                let log: RefCell<Vec<A::Obs>> = RefCell::new(vec![]);
                let got = s.tree.lower_bound_rev(r, |t: &A::T| {
                    let o = A::observe(t);
                    let h = A::holds(p, &o);
                    log.borrow_mut().push(o);
                    h
                });
                let exp = (0..=r).rev().find(|&l| A::holds_on(p, &s.model, l, r));
                if got != exp {
                    return Err(format!("lower_bound_rev({r}, {:?}) returned {:?}; largest l with the predicate true on fold([l..={r}]) of {:?} is {:?}", p, got, s.model, exp));
                }
                for o in log.into_inner() {
                    let ok = match A::obs_len(&o) {
                        Some(k) => k >= 1 && k <= r + 1 && A::accept(&o, &s.model[r + 1 - k..=r]),
                        None => (0..=r).any(|l| A::accept(&o, &s.model[l..=r])),
                    };
                    if !ok {
                        return Err(format!("lower_bound_rev({r}, {:?}) showed the predicate the aggregate {:?}, which is not the in-order merge of [l..={r}] for any l (array {:?})", p, o, s.model));
                    }
                }
                Ok(fp(&got))
            }
        }
    }

    fn invariant(&self, s: &St<A>) -> Result<(), String> {
        if s.tree.verif_len() != self.n {
            return Err(format!("tree reports length {}, constructed with {}", s.tree.verif_len(), self.n));
        }
        match self.mode {
            Mode::C01 => self.check_all_singles(s),
            // a search must leave the logical array unchanged: in C02 mode the same observation is made
            // after every transition, but only search transitions can be blamed for it, so it is
            // judged in `step`'s caller through this invariant as well (non-search actions were
            // judged by the C01 run on the same state space)
            Mode::C02 => self.check_all_singles(s),
        }
    }

    fn canon(&self, s: &St<A>) -> Vec<u8> {
        let mut k = Vec::with_capacity(64);
        for t in s.tree.verif_nodes() {
            A::encode(t, &mut k);
        }
        k.push(0xff);
        for e in &s.model {
            A::encode_elem(e, &mut k);
        }
        k
    }

    fn kind(&self, a: &Act) -> &'static str {
        match a {
            Act::FromSlice(_) => "from_slice",
            Act::FromIter(_) => "from_iter",
            Act::New(_) => "new",
            Act::FromSliceDirty(_) => "from_slice_dirty",
            Act::NewDirty(_) => "new_dirty",
            Act::SetDirty(..) => "set_dirty",
            Act::Set(..) => "set",
            Act::Modify(..) => "modify",
            Act::Ask(..) => "ask",
            Act::Lb(..) => "lower_bound",
            Act::LbRev(..) => "lower_bound_rev",
            Act::Debug => "debug",
        }
    }
}

// ------------------------------------------------------------------------------------------------

struct Part {
    name: String,
    n: usize,
    depth: Option<usize>,
    res: ExploreResult,
    wall: f64,
    /// what `M::default()` is for the part's algebra, and what the algebra declares it may be
    defmod: DefaultMod,
    defmod_may_be_identity: bool,
    skipped_out_of_domain: u64,
}

fn run_part<A: Alg>(label: &str, n: usize, mode: Mode, depth: Option<usize>, all_inits: bool, wall: f64) -> Part {
    let mut sys = Sys::<A>::new(n, mode, all_inits);
    if let Some(base) = label.strip_suffix("+stale-tags") {
        let _ = base;
        sys.dirty = true;
    }
    // thorough parts are many and deep: a part that would grow beyond the cap is stopped there (reported as
    // cap_hit with the depth it completed) instead of exhausting the machine's memory
    let cfg = ExploreCfg { max_depth: depth, max_states: if wall > 100.0 { 8_000_000 } else { 30_000_000 }, wall_cap_s: wall };
    let t0 = std::time::Instant::now();
    let res = explore(&sys, &cfg);
    Part { name: label.to_string(), n, depth, res, wall: t0.elapsed().as_secs_f64(), defmod: default_mod::<A>(), defmod_may_be_identity: A::DEFAULT_MOD_IS_IDENTITY, skipped_out_of_domain: sys.skipped.load(std::sync::atomic::Ordering::Relaxed) }
}

fn replay_part(label: &str, n: usize, mode: Mode, hist: &[Value]) -> Result<(), String> {
    macro_rules! go {
        ($a:ty) => {
            replay_history(&Sys::<$a>::new(n, mode, true), hist)
        };
    }
    macro_rules! god {
        ($a:ty) => {{
            let mut sys = Sys::<$a>::new(n, mode, true);
            sys.dirty = true;
            replay_history(&sys, hist)
        }};
    }
    if let Some(base) = label.strip_suffix("+stale-tags") {
        return match base {
            "W" => god!(AlgW),
            "A3" => god!(AlgA3),
            "Fr" => god!(AlgFr),
            "SumAdd<Z4>" => god!(AlgSumAddZ4),
            "MinAdd<i64>" => god!(AlgMinAdd),
            "MaxAdd<i64>" => god!(AlgMaxAdd),
            "SumAdd<i64>" => god!(AlgSumAdd),
            "Flip" => god!(AlgFlip),
            "FlipZ" => god!(AlgFlipZ),
            "AP" => god!(AlgAp),
            "Comb<MinAdd,MaxAdd>" => god!(Comb<AlgMinAdd, AlgMaxAdd>),
            "Comb<Comb<MinAdd,MaxAdd>,SumAdd>" => god!(Comb<Comb<AlgMinAdd, AlgMaxAdd>, AlgSumAdd>),
            _ => {
                eprintln!("replay: unknown algebra {label}");
                std::process::exit(2)
            }
        };
    }
    match label {
        "W" => go!(AlgW),
        "A3" => go!(AlgA3),
        "Fr" => go!(AlgFr),
        "Sum<Z3>" => go!(AlgSumZ3),
        "SumAdd<Z4>" => go!(AlgSumAddZ4),
        "Min<u8>" => go!(AlgMinU8),
        "Max<u8>" => go!(AlgMaxU8),
        "MinAdd<i64>" => go!(AlgMinAdd),
        "MaxAdd<i64>" => go!(AlgMaxAdd),
        "SumAdd<i64>" => go!(AlgSumAdd),
        "Comb<MinAdd,MaxAdd>" => go!(Comb<AlgMinAdd, AlgMaxAdd>),
        "Comb<Comb<MinAdd,MaxAdd>,SumAdd>" => go!(Comb<Comb<AlgMinAdd, AlgMaxAdd>, AlgSumAdd>),
        "Comb<Sum<Z3>,Comb<Min,Max>>" => go!(Comb<AlgSumZ3, Comb<AlgMinU8, AlgMaxU8>>),
        "Flip" => go!(AlgFlip),
        "FlipZ" => go!(AlgFlipZ),
        "AP" => go!(AlgAp),
        "Comb<W,W>" => go!(Comb<AlgW, AlgW>),
        "Comb<Flip,Comb<Flip,Flip>>" => go!(Comb<AlgFlip, Comb<AlgFlip, AlgFlip>>),
        "MinAdd@MAX" => go!(AlgMinAddExt),
        "MaxAdd@MIN" => go!(AlgMaxAddExt),
        "MinAdd@MIN" => go!(AlgMinAddLow),
        "MaxAdd@MAX" => go!(AlgMaxAddHigh),
        "MinAdd+=MAX" => go!(AlgMinAddStep),
        "MaxAdd+=MIN" => go!(AlgMaxAddStep),
        "Min<Rec>" => go!(AlgMinRec),
        "Max<Rec>" => go!(AlgMaxRec),
        _ => with_pair(label, ReplayPair { n, mode, hist }).unwrap_or_else(|| {
            eprintln!("replay: unknown algebra {label}");
            std::process::exit(2)
        }),
    }
}

// ------------------------------------------------------------------------------------------------
// Part F: `Combinator` of a built-in item and an INDEPENDENT harness item, in both positions.

/// a computation that is generic in the algebra, run with the pair algebra a label names
trait WithAlg {
    type Out;
    fn run<A: Alg>(self) -> Self::Out;
}

#[derive(Clone, Copy, PartialEq)]
enum Sched {
    /// the built-in part's values drift (i64 additions): all histories up to a depth
    Bounded,
    /// the same with the free algebra as partner (every state remembers its whole history, so the levels grow
    /// fastest): one level less for n >= 2, but never fewer than two actions (two modifications that cancel
    /// in the built-in part)
    BoundedFree,
    /// both parts finite: closure for n up to the given size (quick, thorough), bounded depth above
    Closing(usize, usize),
}

macro_rules! pair_table {
    ($( $label:literal => $ty:ty, $sched:expr; )*) => {
        /// one table for exploration and replay: label, how it is explored
        const PAIRS: &[(&str, Sched)] = &[$(($label, $sched)),*];
        fn with_pair<V: WithAlg>(label: &str, v: V) -> Option<V::Out> {
            $( if label == $label { return Some(v.run::<$ty>()); } )*
            None
        }
    };
}

pair_table! {
    // the lazy additive built-ins next to: words under the four functions (W), the free algebra (Fr, the
    // most general lawful partner), words over Z3 under affine maps (A3)
    "Pair<MinAdd,W>" => Pair<AlgMinAdd, AlgWAdd>, Sched::Bounded;
    "Pair<W,MinAdd>" => Pair<AlgWAdd, AlgMinAdd>, Sched::Bounded;
    "Pair<MaxAdd,W>" => Pair<AlgMaxAdd, AlgWAdd>, Sched::Bounded;
    "Pair<W,MaxAdd>" => Pair<AlgWAdd, AlgMaxAdd>, Sched::Bounded;
    "Pair<SumAdd,W>" => Pair<AlgSumAdd, AlgWAdd>, Sched::Bounded;
    "Pair<W,SumAdd>" => Pair<AlgWAdd, AlgSumAdd>, Sched::Bounded;
    "Pair<MinAdd,Fr>" => Pair<AlgMinAdd, AlgFrAdd>, Sched::BoundedFree;
    "Pair<Fr,MinAdd>" => Pair<AlgFrAdd, AlgMinAdd>, Sched::BoundedFree;
    "Pair<MaxAdd,Fr>" => Pair<AlgMaxAdd, AlgFrAdd>, Sched::BoundedFree;
    "Pair<Fr,MaxAdd>" => Pair<AlgFrAdd, AlgMaxAdd>, Sched::BoundedFree;
    "Pair<SumAdd,Fr>" => Pair<AlgSumAdd, AlgFrAdd>, Sched::BoundedFree;
    "Pair<Fr,SumAdd>" => Pair<AlgFrAdd, AlgSumAdd>, Sched::BoundedFree;
    "Pair<MinAdd,A3>" => Pair<AlgMinAdd, AlgA3Add>, Sched::Bounded;
    "Pair<A3,MinAdd>" => Pair<AlgA3Add, AlgMinAdd>, Sched::Bounded;
    "Pair<MaxAdd,A3>" => Pair<AlgMaxAdd, AlgA3Add>, Sched::Bounded;
    "Pair<A3,MaxAdd>" => Pair<AlgA3Add, AlgMaxAdd>, Sched::Bounded;
    "Pair<SumAdd,A3>" => Pair<AlgSumAdd, AlgA3Add>, Sched::Bounded;
    "Pair<A3,SumAdd>" => Pair<AlgA3Add, AlgSumAdd>, Sched::Bounded;
    // one nesting level further out
    "Pair<Comb<MinAdd,MaxAdd>,Fr>" => Pair<Comb<AlgMinAdd, AlgMaxAdd>, AlgFrAdd>, Sched::BoundedFree;
    "Pair<Fr,Comb<MinAdd,MaxAdd>>" => Pair<AlgFrAdd, Comb<AlgMinAdd, AlgMaxAdd>>, Sched::BoundedFree;
    "Pair<Pair<MaxAdd,W>,SumAdd>" => Pair<Pair<AlgMaxAdd, AlgWAdd>, AlgSumAdd>, Sched::Bounded;
    // finite on both sides
    "Pair<SumAdd<Z4>,W>" => Pair<AlgSumAddZ4, AlgWZ4>, Sched::Closing(2, 3);
    "Pair<W,SumAdd<Z4>>" => Pair<AlgWZ4, AlgSumAddZ4>, Sched::Closing(2, 3);
    // the NON-lazy built-ins (M = ()) next to lazy items with a data-less modifier
    "Pair<Min<u8>,Flip>" => Pair<AlgMinU8, AlgFlip>, Sched::Closing(4, 5);
    "Pair<Flip,Min<u8>>" => Pair<AlgFlip, AlgMinU8>, Sched::Closing(4, 5);
    "Pair<Sum<Z3>,A3>" => Pair<AlgSumZ3, AlgA3Unit>, Sched::Closing(4, 5);
    "Pair<A3,Max<u8>>" => Pair<AlgA3Unit, AlgMaxU8>, Sched::Closing(4, 5);
}

struct RunPair {
    label: &'static str,
    n: usize,
    mode: Mode,
    depth: Option<usize>,
    wall: f64,
}
impl WithAlg for RunPair {
    type Out = Part;
    fn run<A: Alg>(self) -> Part {
        run_part::<A>(self.label, self.n, self.mode, self.depth, false, self.wall)
    }
}

struct ReplayPair<'a> {
    n: usize,
    mode: Mode,
    hist: &'a [Value],
}
impl WithAlg for ReplayPair<'_> {
    type Out = Result<(), String>;
    fn run<A: Alg>(self) -> Result<(), String> {
        replay_history(&Sys::<A>::new(self.n, self.mode, true), self.hist)
    }
}

/// The pair family: every (label, n) is a small independent exploration, so they run side by side.
fn pair_parts(mode: Mode, quick: bool, wall: f64) -> Vec<Part> {
    use rayon::prelude::*;
    let bounded: &[(usize, usize)] = if quick { &[(1, 4), (2, 4), (3, 3), (4, 2)] } else { &[(1, 5), (2, 5), (3, 4), (4, 3), (5, 2)] };
    let mut jobs: Vec<RunPair> = vec![];
    for &(label, sched) in PAIRS {
        match sched {
            Sched::Bounded => jobs.extend(bounded.iter().map(|&(n, d)| RunPair { label, n, mode, depth: Some(d), wall })),
            Sched::BoundedFree => jobs.extend(bounded.iter().map(|&(n, d)| RunPair { label, n, mode, depth: Some(if n >= 2 { (d - 1).max(2) } else { d }), wall })),
            // closure up to the size that closes inside the budget, bounded depth above it
            Sched::Closing(q, t) => jobs.extend(bounded.iter().map(|&(n, d)| RunPair { label, n, mode, depth: if n <= (if quick { q } else { t }) { None } else { Some(d) }, wall })),
        }
    }
    jobs.into_par_iter().map(|j| with_pair(j.label, j).unwrap()).collect()
}

struct Sweep {
    sizes: Vec<usize>,
    histories: u64,
    actions: u64,
    fail: Option<(usize, Vec<Value>, String)>,
}

fn boundary_positions(n: usize) -> Vec<usize> {
    let mut b: Vec<i64> = vec![0, 1, 2, n as i64 / 2 - 1, n as i64 / 2, n as i64 / 2 + 1, n as i64 - 3, n as i64 - 2, n as i64 - 1];
    let mut p = 1i64;
    while p <= n as i64 {
        b.extend([p - 1, p, p + 1]);
        p *= 2;
    }
    let mut v: Vec<usize> = b.into_iter().filter(|x| *x >= 0 && (*x as usize) < n).map(|x| x as usize).collect();
    v.sort();
    v.dedup();
    v
}

fn sweep_history(n: usize, ctor: u8, mode: Mode) -> Vec<Act> {
    let init = vec![0u8; n];
    let mut h = vec![match ctor {
        0 => Act::FromSlice(init),
        1 => Act::FromIter(init),
        _ => Act::New(0),
    }];
    let b = boundary_positions(n);
    let pos: Vec<usize> = if n <= 40 {
        (0..n).collect()
    } else if n <= 130 {
        b.clone()
    } else {
        // large arrays: the ends, the middle and the largest power of two inside
        let p = (n + 1).next_power_of_two() / 2;
        let mut v: Vec<usize> = [0, 1, n / 2 - 1, n / 2, n / 2 + 1, p - 1, p, (p + 1).min(n - 1), n - 2, n - 1].into_iter().filter(|x| *x < n).collect();
        v.sort();
        v.dedup();
        v
    };
    let last = n - 1;
    let mid = n / 2;
    let mut ranges: Vec<(usize, usize)> = vec![(0, last), (mid, mid), (0, mid), (mid.min(last), last)];
    if n >= 3 {
        ranges.push((1, n - 2));
    }
    for w in b.windows(2) {
        ranges.push((w[0], w[1]));
    }
    let queries = |h: &mut Vec<Act>| {
        for &l in &pos {
            for &r in &pos {
                if l <= r {
                    match mode {
                        Mode::C01 => h.push(Act::Ask(l as u16, r as u16)),
                        Mode::C02 => {}
                    }
                }
            }
            if mode == Mode::C02 {
                for p in [Pred::LenGe(0), Pred::LenGe(1), Pred::LenGe(2), Pred::LenGe((n - l) as u16), Pred::LenGe((n - l) as u16 + 1), Pred::LastMod(1)] {
                    h.push(Act::Lb(l as u16, p.clone()));
                }
                for p in [Pred::LenGe(0), Pred::LenGe(1), Pred::LenGe(2), Pred::LenGe(l as u16 + 1), Pred::LenGe(l as u16 + 2), Pred::LastMod(1)] {
                    h.push(Act::LbRev(l as u16, p));
                }
            }
        }
    };
    for (k, &(l, r)) in ranges.iter().enumerate() {
        h.push(Act::Modify(l as u16, r as u16, (k % 2) as u8));
        if k % 3 == 1 {
            h.push(Act::Ask(l as u16, r as u16));
        }
    }
    queries(&mut h);
    for &i in [0, mid, last].iter() {
        h.push(Act::Set(i as u16, 0));
    }
    h.push(Act::Modify(0, last as u16, 1));
    h.push(Act::Modify(mid as u16, last as u16, 0));
    queries(&mut h);
    h
}

fn size_sweep(mode: Mode, quick: bool) -> Sweep {
    use rayon::prelude::*;
    let mut sizes: Vec<usize> = if quick { (1..=40).collect() } else { (1..=130).collect() };
    sizes.extend([47, 48, 49, 63, 64, 65, 96, 127, 128, 129, 255, 256, 257, 511, 512, 513, 1000, 1023, 1024, 1025]);
    if !quick {
        sizes.extend([2047, 2048, 2049, 4095, 4096, 4097]);
    }
    sizes.sort();
    sizes.dedup();
    let jobs: Vec<(usize, u8)> = sizes.iter().flat_map(|&n| (0..3u8).map(move |c| (n, c))).collect();
    let res: Vec<(usize, u64, Option<(Vec<Value>, String)>)> = jobs
        .par_iter()
        .map(|&(n, c)| {
            let h = sweep_history(n, c, mode);
            let vals: Vec<Value> = h.iter().map(|a| serde_json::to_value(a).unwrap()).collect();
            let sys = Sys::<AlgFr>::new(n, mode, true);
            match replay_history(&sys, &vals) {
                Ok(()) => (n, h.len() as u64, None),
                Err(m) => {
                    // shortest failing prefix
                    let mut hi = vals.len();
                    let mut lo = 1;
                    while lo < hi {
                        let midp = (lo + hi) / 2;
                        if replay_history(&sys, &vals[..midp]).is_err() {
                            hi = midp;
                        } else {
                            lo = midp + 1;
                        }
                    }
                    (n, h.len() as u64, Some((vals[..hi].to_vec(), m)))
                }
            }
        })
        .collect();
    let mut sw = Sweep { sizes, histories: res.len() as u64, actions: 0, fail: None };
    for (n, k, f) in res {
        sw.actions += k;
        if let (Some((h, m)), true) = (f, sw.fail.is_none()) {
            sw.fail = Some((n, h, m));
        }
    }
    sw
}

fn confirm_mode(mode: Mode) -> impl Fn(&Value) -> Result<(), String> {
    move |v: &Value| {
        if v["kind"] == "from" {
            return check_from();
        }
        let hist: Vec<Value> = v["history"].as_array().unwrap().clone();
        replay_part(v["algebra"].as_str().unwrap(), v["n"].as_u64().unwrap() as usize, mode, &hist)
    }
}

/// `From<T>` of the pair combinator must initialise both components like their own `From`.
fn check_from() -> Result<(), String> {
    for v in [-3i64, 0, 7] {
        let c: Combinator<MinAdd<i64>, MaxAdd<i64>> = Combinator::from(v);
        if c.0.v != v || c.1.v != v || c.0.md != 0 || c.1.md != 0 {
            return Err(format!("Combinator::<MinAdd,MaxAdd>::from({v}) = {:?}", c));
        }
        let c: Combinator<Combinator<MinAdd<i64>, MaxAdd<i64>>, SumAdd<i64>> = Combinator::from(v);
        if (c.0).0.v != v || (c.0).1.v != v || c.1.v != v || c.1.len != 1 || c.1.md != 0 {
            return Err(format!("Combinator::<Combinator<MinAdd,MaxAdd>,SumAdd>::from({v}) = {:?}", c));
        }
    }
    Ok(())
}

fn main() {
    let args = Args::parse();
    quiet_panics();
    let mode = match args.prop.as_str() {
        "C01" => Mode::C01,
        "C02" => Mode::C02,
        _ => {
            eprintln!("eng_seg serves C01 and C02");
            std::process::exit(2)
        }
    };
    let confirm = confirm_mode(mode);
    if args.replay.is_some() {
        Run::replay_main(&args, &confirm);
    }
    let mut run = Run::new(&args, "seg", "model_checking");
    let quick = args.tier == Tier::Quick;
    let wall = if quick { 40.0 } else { 900.0 };
    let mut parts: Vec<Part> = vec![];

    // Part A: closure over W for every n (all three constructor families as initial states)
    let max_w = if quick { 6 } else { 7 };
    for n in 1..=max_w {
        parts.push(run_part::<AlgW>("W", n, mode, None, true, wall));
    }
    // second closing algebra
    let max_a3 = if quick { 3 } else { 4 };
    for n in 1..=max_a3 {
        parts.push(run_part::<AlgA3>("A3", n, mode, None, true, wall));
    }
    // Part B: free algebra, bounded depth
    let fr: &[(usize, usize)] = if quick { &[(1, 4), (2, 4), (3, 4), (4, 3), (5, 3), (6, 3), (7, 2), (8, 2), (9, 2)] } else { &[(1, 5), (2, 5), (3, 5), (4, 4), (5, 4), (6, 4), (7, 3), (8, 3), (9, 3)] };
    for &(n, d) in fr {
        parts.push(run_part::<AlgFr>("Fr", n, mode, Some(d), true, wall));
    }
    // Part C: built-in items
    let cn = if quick { 4 } else { 5 };
    for n in 1..=cn {
        parts.push(run_part::<AlgSumZ3>("Sum<Z3>", n, mode, None, true, wall));
        parts.push(run_part::<AlgMinU8>("Min<u8>", n, mode, None, true, wall));
        parts.push(run_part::<AlgMaxU8>("Max<u8>", n, mode, None, true, wall));
    }
    for n in 1..=(if quick { 3 } else { 4 }) {
        parts.push(run_part::<AlgSumAddZ4>("SumAdd<Z4>", n, mode, None, true, wall));
    }
    let bi: &[(usize, usize)] = if quick { &[(1, 4), (2, 4), (3, 3), (4, 2), (5, 1)] } else { &[(1, 5), (2, 5), (3, 4), (4, 3), (5, 2), (6, 2)] };
    for &(n, bd) in bi {
        parts.push(run_part::<AlgMinAdd>("MinAdd<i64>", n, mode, Some(bd), true, wall));
        parts.push(run_part::<AlgMaxAdd>("MaxAdd<i64>", n, mode, Some(bd), true, wall));
        parts.push(run_part::<AlgSumAdd>("SumAdd<i64>", n, mode, Some(bd), true, wall));
        parts.push(run_part::<Comb<AlgMinAdd, AlgMaxAdd>>("Comb<MinAdd,MaxAdd>", n, mode, Some(bd), true, wall));
        parts.push(run_part::<Comb<Comb<AlgMinAdd, AlgMaxAdd>, AlgSumAdd>>("Comb<Comb<MinAdd,MaxAdd>,SumAdd>", n, mode, Some(bd), true, wall));
    }
    for n in 1..=(if quick { 3 } else { 4 }) {
        parts.push(run_part::<Comb<AlgSumZ3, Comb<AlgMinU8, AlgMaxU8>>>("Comb<Sum<Z3>,Comb<Min,Max>>", n, mode, None, true, wall));
    }

    // Part C2: a lazy item with a data-less modifier (M = (), and M = a zero-sized struct), a Combinator of two
    // NON-commutative parts, elements at the extreme values of the type, records compared by key only
    for n in 1..=(if quick { 5 } else { 6 }) {
        parts.push(run_part::<AlgFlip>("Flip", n, mode, None, true, wall));
        parts.push(run_part::<AlgFlipZ>("FlipZ", n, mode, None, true, wall));
    }
    for n in 1..=(if quick { 4 } else { 5 }) {
        parts.push(run_part::<Comb<AlgW, AlgW>>("Comb<W,W>", n, mode, None, true, wall));
    }
    // a lazy item whose push treats the two children differently (arithmetic progression)
    let ap: &[(usize, Option<usize>)] = if quick { &[(1, None), (2, None), (3, Some(4)), (4, Some(3)), (5, Some(2))] } else { &[(1, None), (2, None), (3, None), (4, Some(4)), (5, Some(3)), (6, Some(3))] };
    for &(n, d) in ap {
        parts.push(run_part::<AlgAp>("AP", n, mode, d, true, wall));
    }
    for n in 1..=(if quick { 3 } else { 4 }) {
        parts.push(run_part::<Comb<AlgFlip, Comb<AlgFlip, AlgFlip>>>("Comb<Flip,Comb<Flip,Flip>>", n, mode, None, true, wall));
    }
    let ext: &[(usize, usize)] = if quick { &[(1, 3), (2, 3), (3, 3), (4, 2)] } else { &[(1, 4), (2, 4), (3, 4), (4, 3), (5, 3)] };
    for &(n, d) in ext {
        parts.push(run_part::<AlgMinAddExt>("MinAdd@MAX", n, mode, Some(d), true, wall));
        parts.push(run_part::<AlgMaxAddExt>("MaxAdd@MIN", n, mode, Some(d), true, wall));
        // the opposite limits and limit-sized modifiers: up to n = 4 in both tiers (the thorough tier is long as it is)
        if n <= 4 {
            parts.push(run_part::<AlgMinAddLow>("MinAdd@MIN", n, mode, Some(d), true, wall));
            parts.push(run_part::<AlgMaxAddHigh>("MaxAdd@MAX", n, mode, Some(d), true, wall));
            parts.push(run_part::<AlgMinAddStep>("MinAdd+=MAX", n, mode, Some(d), true, wall));
            parts.push(run_part::<AlgMaxAddStep>("MaxAdd+=MIN", n, mode, Some(d), true, wall));
        }
        parts.push(run_part::<AlgMinRec>("Min<Rec>", n, mode, Some(d), true, wall));
        parts.push(run_part::<AlgMaxRec>("Max<Rec>", n, mode, Some(d), true, wall));
    }

    // Part D: constructors and point assignments fed with elements that carry a stale pending modifier
    // (an element read back from another tree after a range modification), bounded depth
    let dn: &[(usize, usize)] = if quick { &[(1, 3), (2, 3), (3, 3), (4, 2)] } else { &[(1, 4), (2, 4), (3, 4), (4, 3), (5, 2), (6, 2)] };
    for &(n, d) in dn {
        parts.push(run_part::<AlgW>("W+stale-tags", n, mode, Some(d), true, wall));
        parts.push(run_part::<AlgA3>("A3+stale-tags", n, mode, Some(d), true, wall));
        parts.push(run_part::<AlgFr>("Fr+stale-tags", n, mode, Some(d), true, wall));
        parts.push(run_part::<AlgFlip>("Flip+stale-tags", n, mode, Some(d), true, wall));
        parts.push(run_part::<AlgFlipZ>("FlipZ+stale-tags", n, mode, Some(d), true, wall));
        parts.push(run_part::<AlgAp>("AP+stale-tags", n, mode, Some(d), true, wall));
        parts.push(run_part::<AlgSumAddZ4>("SumAdd<Z4>+stale-tags", n, mode, Some(d), true, wall));
        parts.push(run_part::<AlgMinAdd>("MinAdd<i64>+stale-tags", n, mode, Some(d), true, wall));
        parts.push(run_part::<AlgMaxAdd>("MaxAdd<i64>+stale-tags", n, mode, Some(d), true, wall));
        parts.push(run_part::<AlgSumAdd>("SumAdd<i64>+stale-tags", n, mode, Some(d), true, wall));
        parts.push(run_part::<Comb<AlgMinAdd, AlgMaxAdd>>("Comb<MinAdd,MaxAdd>+stale-tags", n, mode, Some(d), true, wall));
        parts.push(run_part::<Comb<Comb<AlgMinAdd, AlgMaxAdd>, AlgSumAdd>>("Comb<Comb<MinAdd,MaxAdd>,SumAdd>+stale-tags", n, mode, Some(d), true, wall));
    }

    // Part F: Combinator<built-in, harness item> and Combinator<harness item, built-in> with independent parts
    let t_pairs = std::time::Instant::now();
    parts.extend(pair_parts(mode, quick, wall));
    let pairs_wall = t_pairs.elapsed().as_secs_f64();

    // Part E: size sweep — directed histories on the free algebra for many sizes (every n up to 40/130,
    // and the neighbours of powers of two up to 1025/4097), all three constructors, boundary-targeted
    // modifications, then ALL (l, r) queries (n <= 40) or all pairs of boundary positions
    let sweep = size_sweep(mode, quick);

    // What `M::default()` is in every explored algebra (a fact about the harness, not about /repo): it must be
    // a modifier the exploration applies, and the identity only where the modifiers are plain additive
    // numbers or modifying is a no-op.
    let mut default_mods: Vec<Value> = vec![];
    let mut seen: Vec<&str> = vec![];
    for p in &parts {
        let name = p.name.strip_suffix("+stale-tags").unwrap_or(&p.name);
        if seen.contains(&name) {
            continue;
        }
        seen.push(name);
        let d = &p.defmod;
        if !d.in_alphabet || d.acts == p.defmod_may_be_identity {
            run.machinery_failure(&format!("algebra {name}: M::default() = {} must be in the explored alphabet (is: {}) and {} (changes an element: {})", d.rendering, d.in_alphabet, if p.defmod_may_be_identity { "the identity" } else { "NOT the identity" }, d.acts));
        }
        default_mods.push(json!({"algebra": name, "default_modifier": d.rendering, "in_alphabet": d.in_alphabet, "is_identity": !d.acts, "modifier_zero_sized": d.zero_sized}));
    }
    if !parts.iter().any(|p| p.name == "FlipZ" && p.defmod.zero_sized && p.defmod.acts) || !parts.iter().any(|p| p.name == "Flip" && p.defmod.zero_sized && p.defmod.acts) {
        run.machinery_failure("no lazy algebra with a zero-sized modifier type");
    }
    // the domain restriction bites exactly where it is meant to
    for p in &parts {
        let step = p.name == "MinAdd+=MAX" || p.name == "MaxAdd+=MIN";
        // (a part that stopped at a violation may not have come to a state where it would have skipped)
        if (!step && p.skipped_out_of_domain > 0) || (step && p.skipped_out_of_domain == 0 && p.res.violation.is_none()) {
            run.machinery_failure(&format!("part {} n={}: {} modifications withheld as out of domain", p.name, p.n, p.skipped_out_of_domain));
        }
    }
    run.cov("default_modifiers", json!({"algebras": default_mods, "non_identity_defaults": parts.iter().filter(|p| p.defmod.acts).count(), "note": "M::default() of each explored algebra: always a letter of the explored alphabet; the identity only for plain additive numbers and for the no-op modifier () of the non-lazy built-ins"}));

    let mut states = 0u64;
    let mut transitions = 0u64;
    let mut table = vec![];
    let mut all_closed = true;
    let mut outcomes = 0u64;
    let mut judged = 0u64;
    let mut reported: Vec<String> = vec![];
    for p in &parts {
        states += p.res.states;
        transitions += p.res.transitions;
        outcomes += p.res.distinct_outcomes;
        let judged_kinds: &[&str] = if mode == Mode::C01 { &["ask", "debug"] } else { &["lower_bound", "lower_bound_rev"] };
        judged += judged_kinds.iter().map(|k| p.res.per_kind.get(k).copied().unwrap_or(0)).sum::<u64>();
        if p.depth.is_none() && !p.res.closed {
            all_closed = false;
        }
        if p.res.cap_hit.is_some() && p.depth.is_none() {
            all_closed = false;
        }
        // a depth-bounded part that was stopped by a state or wall cap did not cover its depth
        if p.res.cap_hit.as_deref().map_or(false, |c| !c.starts_with("depth bound")) {
            all_closed = false;
        }
        table.push(json!({"algebra": p.name, "n": p.n, "depth_bound": p.depth, "wall_s": (p.wall * 100.0).round() / 100.0, "skipped_out_of_domain": p.skipped_out_of_domain, "result": p.res.to_json()}));
        // one report per algebra: the smallest n that fails (parts are ordered by n within an algebra)
        if let Some(f) = p.res.violation.as_ref().filter(|_| !reported.contains(&p.name)) {
            reported.push(p.name.clone());
            let sig = format!("{}:n={}:{}", p.name, p.n, serde_json::to_string(&f.history).unwrap());
            run.violation(Violation::new(sig, format!("[{} n={}] {}", p.name, p.n, f.message), json!({"kind": "history", "algebra": p.name, "n": p.n, "history": f.history})));
        }
    }
    run.cov("size_sweep", json!({"sizes": sweep.sizes, "histories": sweep.histories, "actions_executed": sweep.actions, "note": "NOT a closure: directed histories per size on the free algebra (3 constructors x boundary-targeted modifies x all or boundary (l,r) queries / searches)"}));
    if let Some((n, hist, msg)) = sweep.fail {
        let sig = format!("sweep:Fr:n={}:{}", n, serde_json::to_string(&hist.iter().rev().take(6).rev().collect::<Vec<_>>()).unwrap());
        run.violation(Violation::new(sig, format!("[size sweep, free algebra, n={n}, history of {} actions] {msg}", hist.len()), json!({"kind": "history", "algebra": "Fr", "n": n, "history": hist})));
    }
    if mode == Mode::C01 {
        if let Err(m) = check_from() {
            run.violation(Violation::new("combinator_from", m, json!({"kind": "from"})));
        }
    }
    for p in parts.iter().filter(|p| p.name == "W" || p.name == "Fr").rev().take(2) {
        for h in p.res.sample_histories.iter().take(2) {
            run.sample(json!({"algebra": p.name, "n": p.n, "history": h}));
        }
    }
    run.cov("states", states);
    run.cov("skipped_out_of_domain", parts.iter().map(|p| p.skipped_out_of_domain).sum::<u64>());
    run.cov("transitions", transitions);
    run.cov("traces_validated_against_impl", transitions);
    run.cov("judged_transitions", judged);
    run.cov("distinct_outcomes", outcomes);
    run.cov("exhaustive", all_closed && !run.has_violations());
    run.cov("parts", Value::Array(table));
    run.cov("rule", "per (algebra, n): BFS over the real Segtree's node array (hook verif_nodes) + plain-array model; every set/modify/ask (C02: also every lower_bound/lower_bound_rev for every predicate of the family at every position; C01: debug) applied in every reached state; parts without depth_bound run to closure (histories of any length), parts with depth_bound cover all histories up to that depth; all three constructor families are initial states of the closing parts. Parts named Pair<X,Y> are Combinator<X,Y> of one built-in item (MinAdd, MaxAdd, SumAdd, and the non-lazy Min, Max, Sum) and one INDEPENDENT non-commutative harness item (W, A3, the free algebra Fr, Flip), in both positions and one nesting level out; the harness part receives the built-in's modifiers through a fixed translation (i64: +1 -> not / x+1 / letter 1, -1 -> const0 / :=0 / letter 2, +2 -> identity / x+2 / letter 3, 0 -> const1 / :=1 / letter 4; Z4: 1,2,3,0 -> not,const0,identity,const1; (): x+1 on Z3), so modifiers that cancel in the built-in part (+1 then -1, a 0) stay pending in the other part and vice versa; the reference is the pair of the two plain-array models; from_iter of all vectors over two element letters are the initial states. Trait surface: every modifier type is Copy+Debug+Default+Eq+Ord+Hash and every harness item / value type implements the std traits its fields allow, so the engine keeps compiling when the crate tightens a bound; these impls are adversarial, not convenient: T::default() is the merge identity and == is exact, but M::default() is an ordinary NON-identity letter of the explored alphabet wherever the modifiers are not plain additive numbers (W: const0, A3: :=0, Fr: letter 0, AP: the progression (2,3) from index 0, Flip with M = () and FlipZ with M = a zero-sized struct: the complement; Pair/Comb: the shared modifier's default, translated to a non-identity of the harness part), see default_modifiers; the additive alphabets (i64, Z4) contain 0 = default next to +1 and -1. Value sentinels: the i64 elements 0, 1, -2 pass through 0, 1, -1 under the modifiers; MinAdd@MAX / MinAdd@MIN / MaxAdd@MIN / MaxAdd@MAX hold elements equal to both limits of i64 (one of them is the item's Default) with modifiers that move away from the limit; MinAdd+=MAX / MaxAdd+=MIN apply the modifier i64::MAX / i64::MIN itself to elements on the far side of 0; Min<u8> / Max<u8> hold 0 and 255 next to 1, 2, 3; the search thresholds of the i64 items lie around 0 and around every element letter");
    run.cov("pair_family", json!({"algebras": PAIRS.iter().map(|p| p.0).collect::<Vec<_>>(), "wall_s": (pairs_wall * 100.0).round() / 100.0, "note": "explored side by side (rayon), so the wall_s of the parts overlap; wall_s here is the whole family"}));
    run.assume("harness item algebras W, A3, Fr satisfy the monoid-action laws (merge associative with Default as identity, modify distributes over merge, push = apply pending modifiers to both children in order); a node covering one element never records a pending tag (it has no children, so no tree can read it)");
    run.assume("a harness item driven through a translation of another modifier alphabet (Pair parts) is lawful for every translation: the tree never composes modifiers, it only hands each one to the items, and the wrapped item composes and pushes the translated modifiers as before");
    run.assume("integer overflow is outside the domain: a range modification that would take a covered element out of i64 is not offered in that state (skipped_out_of_domain counts them; only MinAdd+=MAX / MaxAdd+=MIN, whose modifier alphabets contain a limit of the type, ever skip), and the alphabets are chosen so that no pending sum of modifiers leaves the type either; SumAdd is not run at the limits of i64 (the sum of two elements would overflow)");
    run.assume("state identity = encoded node array (all slots, including those the tree never addresses) + plain-array model");
    // non-vacuity
    if !run.has_violations() {
        let w_last = parts.iter().filter(|p| p.name == "W").last().unwrap();
        if w_last.res.states < 1000 || judged < 10_000 || outcomes < 50 {
            run.machinery_failure("exploration implausibly small");
        }
        let pair_states: u64 = parts.iter().filter(|p| p.name.starts_with("Pair<")).map(|p| p.res.states).sum();
        if pair_states < 100_000 || parts.iter().any(|p| p.name.starts_with("Pair<") && p.res.transitions == 0) {
            run.machinery_failure("pair family implausibly small");
        }
    }
    run.finish(&confirm)
}
