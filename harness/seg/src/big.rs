//! LARGE trees.  The closures and bounded-depth parts stop at n = 9 and the size sweep at n = 1025 (4097); the
//! depth of the tree, the number of nodes a prefix / suffix splits into and the index arithmetic grow with
//! log n, so one more size class is covered by directed histories: n around 2^19, 10^6, 2^20 (thorough: 2^21),
//! on the crate's own cheapest items (`Sum<i64>`, not lazy; `SumAdd<i64>`, lazy), built by every constructor,
//! with boundary-targeted range modifications and point assignments, then
//!   C01: `ask` on every pair of boundary positions, judged against prefix sums of the plain array;
//!   C02: both searches from boundary positions with thresholds that put the answer at the start position, at
//!        the far end of the array, in the middle, and nowhere; the returned index and every aggregate shown
//!        to the predicate are judged against the prefix sums (elements are non-negative, so `sum >= t` is
//!        monotone).
//! NOT a closure: one deterministic history per (item, n, constructor).

use rlib_segtree::segtree_items::{Sum, SumAdd};
use rlib_segtree::{Segtree, SegtreeItem};
use vcore::catch;

pub trait BigItem {
    type T: SegtreeItem<Self::M> + Clone + Default + std::fmt::Debug + Send + Sync;
    /// with every std trait a library could start to require of a modifier (as `Alg::M`)
    type M: Copy + Default + Eq + Ord + std::hash::Hash + std::fmt::Debug + Send + Sync + 'static;
    const NAME: &'static str;
    /// do range modifications change the elements (`M = i64`: add) or is the modifier the no-op `()`
    const LAZY: bool;
    fn item(v: i64) -> Self::T;
    fn modifier(d: i64) -> Self::M;
    fn sum(t: &Self::T) -> i64;
    /// number of elements of an aggregate, if the item records it
    fn len(t: &Self::T) -> Option<usize>;
}

pub struct BigSum;
impl BigItem for BigSum {
    type T = Sum<i64>;
    type M = ();
    const NAME: &'static str = "Sum<i64>";
    const LAZY: bool = false;
    fn item(v: i64) -> Sum<i64> {
        Sum::new(v)
    }
    fn modifier(_d: i64) {}
    fn sum(t: &Sum<i64>) -> i64 {
        t.v
    }
    fn len(_t: &Sum<i64>) -> Option<usize> {
        None
    }
}

pub struct BigSumAdd;
impl BigItem for BigSumAdd {
    type T = SumAdd<i64>;
    type M = i64;
    const NAME: &'static str = "SumAdd<i64>";
    const LAZY: bool = true;
    fn item(v: i64) -> SumAdd<i64> {
        SumAdd::new(v)
    }
    fn modifier(d: i64) -> i64 {
        d
    }
    fn sum(t: &SumAdd<i64>) -> i64 {
        t.v
    }
    fn len(t: &SumAdd<i64>) -> Option<usize> {
        usize::try_from(t.len).ok()
    }
}

pub const ITEMS: [&str; 2] = [BigSum::NAME, BigSumAdd::NAME];
pub const CTORS: [&str; 3] = ["from_slice", "from_iter", "new"];

pub fn sizes(quick: bool) -> Vec<usize> {
    let mut v = vec![(1 << 19) - 1, 1 << 19, (1 << 19) + 1, 1_000_000, (1 << 20) - 1, 1 << 20, (1 << 20) + 1];
    if !quick {
        v.push((1 << 21) + 1);
    }
    v
}

#[derive(Default)]
pub struct BigOut {
    /// calls into the tree / calls whose result was compared with the prefix sums
    pub calls: u64,
    pub judged: u64,
    pub predicate_evaluations: u64,
    /// where the judged searches ended
    pub none: u64,
    pub at_start: u64,
    pub at_far_end: u64,
    pub inside: u64,
    /// first failing call: (the call, what was wrong)
    pub fail: Option<(String, String)>,
}

struct Big<B: BigItem> {
    n: usize,
    searches: bool,
    tree: Segtree<B::T, B::M>,
    a: Vec<i64>,
    /// p[i] = a[0] + ... + a[i-1]
    p: Vec<i64>,
    out: BigOut,
}

/// the ends, the middle, and both sides of the largest power of two inside the array
fn positions(n: usize) -> Vec<usize> {
    let pw = (n + 1).next_power_of_two() / 2;
    let mut v: Vec<usize> = [0, 1, 2, n / 2 - 1, n / 2, n / 2 + 1, pw - 1, pw, pw + 1, n - 3, n - 2, n - 1].into_iter().filter(|x| *x < n).collect();
    v.sort();
    v.dedup();
    v
}

impl<B: BigItem> Big<B> {
    fn call<R>(&mut self, what: impl Fn() -> String, f: impl FnOnce(&mut Segtree<B::T, B::M>) -> R) -> Result<R, ()> {
        self.out.calls += 1;
        let tree = &mut self.tree;
        match catch(|| f(tree)) {
            Ok(r) => Ok(r),
            Err(m) => {
                self.out.fail = Some((what(), format!("panic: {m}")));
                Err(())
            }
        }
    }

    fn fail(&mut self, what: String, msg: String) -> Result<(), ()> {
        self.out.fail = Some((what, msg));
        Err(())
    }

    fn prefix(&mut self) {
        self.p = Vec::with_capacity(self.n + 1);
        let mut s = 0i64;
        self.p.push(0);
        for x in &self.a {
            s += x;
            self.p.push(s);
        }
    }

    fn modify(&mut self, l: usize, r: usize, d: i64) -> Result<(), ()> {
        if l > r || r >= self.n {
            return Ok(());
        }
        self.call(|| format!("modify({l}, {r}, {d})"), |t| t.modify(l, r, &B::modifier(d)))?;
        if B::LAZY {
            self.a[l..=r].iter_mut().for_each(|x| *x += d);
        }
        Ok(())
    }

    fn set(&mut self, i: usize, v: i64) -> Result<(), ()> {
        self.call(|| format!("set({i}, {v})"), |t| t.set(i, B::item(v)))?;
        self.a[i] = v;
        Ok(())
    }

    fn ask(&mut self, l: usize, r: usize) -> Result<(), ()> {
        let what = || format!("ask({l}, {r})");
        let got = self.call(what, |t| t.ask(l, r))?;
        self.out.judged += 1;
        let exp = self.p[r + 1] - self.p[l];
        if B::sum(&got) != exp || B::len(&got).map_or(false, |k| k != r + 1 - l) {
            return self.fail(what(), format!("returned sum {} over {:?} elements; the plain array holds {} elements there that sum to {exp}", B::sum(&got), B::len(&got), r + 1 - l));
        }
        Ok(())
    }

    /// `lower_bound(pos, sum >= t)` resp. `lower_bound_rev(pos, sum >= t)`
    fn search(&mut self, fwd: bool, pos: usize, t: i64) -> Result<(), ()> {
        let what = || format!("{}({pos}, sum>={t})", if fwd { "lower_bound" } else { "lower_bound_rev" });
        let log = std::cell::RefCell::new(Vec::<(i64, Option<usize>)>::new());
        let f = |x: &B::T| {
            log.borrow_mut().push((B::sum(x), B::len(x)));
            B::sum(x) >= t
        };
        let got = self.call(what, |tr| if fwd { tr.lower_bound(pos, f) } else { tr.lower_bound_rev(pos, f) })?;
        self.out.judged += 1;
        let (n, p) = (self.n, &self.p);
        // the sums of [pos..=r] grow with r and those of [l..=pos] grow as l falls: binary search on the prefix sums
        let exp = if fwd {
            let k = p[pos + 1..=n].partition_point(|&x| x - p[pos] < t);
            (pos + k < n).then_some(pos + k)
        } else {
            let k = p[..=pos].partition_point(|&x| p[pos + 1] - x >= t);
            k.checked_sub(1)
        };
        let log = log.into_inner();
        self.out.predicate_evaluations += log.len() as u64;
        let far = if fwd { n - 1 } else { 0 };
        match exp {
            None => self.out.none += 1,
            Some(i) if i == pos => self.out.at_start += 1,
            Some(i) if i == far => self.out.at_far_end += 1,
            Some(_) => self.out.inside += 1,
        }
        if got != exp {
            let side = if fwd { format!("smallest r with sum([{pos}..=r]) >= {t}") } else { format!("largest l with sum([l..={pos}]) >= {t}") };
            return self.fail(what(), format!("returned {:?}; the {side} is {:?}", got, exp));
        }
        for (v, len) in log {
            // the sum of [pos..=r'] resp. [l'..=pos] for some r', l' — the one the recorded length names, if recorded
            let ok = match (len, fwd) {
                (Some(k), true) => k >= 1 && pos + k <= n && p[pos + k] - p[pos] == v,
                (Some(k), false) => k >= 1 && k <= pos + 1 && p[pos + 1] - p[pos + 1 - k] == v,
                (None, true) => p[pos + 1..=n].binary_search(&(p[pos] + v)).is_ok(),
                (None, false) => p[..=pos].binary_search(&(p[pos + 1] - v)).is_ok(),
            };
            if !ok {
                return self.fail(what(), format!("showed the predicate an aggregate with sum {v} over {:?} elements, which is not the merge of a range that {} {pos}", len, if fwd { "starts at" } else { "ends at" }));
            }
        }
        Ok(())
    }

    fn queries(&mut self) -> Result<(), ()> {
        self.prefix();
        let (n, pos) = (self.n, positions(self.n));
        if !self.searches {
            for &l in &pos {
                for &r in pos.iter().filter(|r| **r >= l) {
                    self.ask(l, r)?;
                }
            }
            return Ok(());
        }
        for &x in &pos {
            for fwd in [true, false] {
                let (first, total) = if fwd { (self.a[x], self.p[n] - self.p[x]) } else { (self.a[x], self.p[x + 1]) };
                // always true; true from the first element on (or the second); in the middle; only with the
                // last element of the side; never
                let mut ts = vec![0, 1, first, first + 1, total / 2, total - 1, total, total + 1];
                ts.sort();
                ts.dedup();
                for t in ts {
                    self.search(fwd, x, t)?;
                }
            }
        }
        // the searches pushed pending modifiers around: the logical array must be what it was
        for (l, r) in [(0, n - 1), (0, 0), (n / 2, n / 2), (n - 1, n - 1), (1, n - 2)] {
            self.ask(l, r)?;
        }
        Ok(())
    }

    fn history(&mut self) -> Result<(), ()> {
        let n = self.n;
        let pw = (n + 1).next_power_of_two() / 2;
        for (l, r, d) in [(0, n - 1, 1), (0, 0, 2), (n - 1, n - 1, 1), (n / 2, n - 1, 2), (0, n / 2, 1), (1, n - 2, 2), (pw - 1, pw, 1), (pw, n - 1, 2)] {
            self.modify(l, r, d)?;
        }
        self.queries()?;
        for (i, v) in [(0, 3), (n / 2, 0), (pw, 7), (n - 1, 5)] {
            self.set(i.min(n - 1), v)?;
        }
        // the second one stays pending at the root while the queries run
        self.modify(n / 2 + 1, n - 1, 2)?;
        self.modify(0, n - 1, 1)?;
        self.queries()
    }
}

/// One deterministic history on a tree of n elements built by constructor `ctor` (index into `CTORS`).
pub fn run<B: BigItem>(n: usize, ctor: usize, searches: bool) -> BigOut {
    // non-negative elements with zeros among them (plateaus of the prefix sums); `new` fills with one value
    let a: Vec<i64> = (0..n).map(|i| if ctor == 2 { 1 } else { [1, 0, 2][i % 3] }).collect();
    let built = catch(|| match ctor {
        0 => Segtree::<B::T, B::M>::from_slice(&a.iter().map(|&v| B::item(v)).collect::<Vec<_>>()),
        1 => Segtree::<B::T, B::M>::from_iter(a.iter().map(|&v| B::item(v)).collect::<Vec<_>>().into_iter()),
        _ => Segtree::<B::T, B::M>::new(n, B::item(1)),
    });
    let tree = match built {
        Ok(t) => t,
        Err(m) => return BigOut { calls: 1, fail: Some((format!("{}(..{n} elements..)", CTORS[ctor]), format!("panic: {m}"))), ..BigOut::default() },
    };
    let mut big = Big::<B> { n, searches, tree, a, p: vec![], out: BigOut { calls: 1, ..BigOut::default() } };
    let _ = big.history();
    big.out
}

pub fn run_named(item: &str, n: usize, ctor: usize, searches: bool) -> Option<BigOut> {
    if n < 8 || ctor >= CTORS.len() {
        return None;
    }
    match item {
        BigSum::NAME => Some(run::<BigSum>(n, ctor, searches)),
        BigSumAdd::NAME => Some(run::<BigSumAdd>(n, ctor, searches)),
        _ => None,
    }
}
