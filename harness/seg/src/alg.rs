//! Item algebras driven through the real `Segtree`: two harness-defined lawful algebras (a finite
//! non-commutative one that closes, and the free algebra) and the crate's built-in items (the lazy sum also
//! over small modular scalars, in which the element count of a node wraps); at the end `Via` / `Pair`, which
//! put a harness item and a built-in item into one `Combinator` as independent parts.
//!
//! Search predicates (`Pred`) are offered per position and direction: `pred_ok_at` says whether a predicate is
//! monotone along the searched side of a position — all the property asks of it.
//!
//! Trait surface.  The crate asks very little of an item or a modifier type today (`T: Clone`, `T: Default`
//! for the searches, `T, M: Debug` for `debug()`), but it may tighten a bound without that being a defect.
//! So every harness modifier type implements `Copy, Debug, Default, Eq, Ord, Hash` (it is a bound of
//! `Alg::M`, hence usable by the crate on every explored tree), every harness item type implements whatever
//! of `Clone, Copy, Debug, Default, PartialEq, Eq, Hash, PartialOrd, Ord` its fields allow, and the value
//! types put inside the built-in items (`Z3`, `Z4`, `Rec`) implement the usual arithmetic / ordering traits.
//! None of these impls is a convenience the crate may rely on: `T::default()` is the merge identity (the
//! crate requires that), `==` is exact equality of all fields, but `M::default()` is NOT the identity
//! modifier unless the modifiers are plain additive numbers — it is an ordinary, non-identity letter of the
//! explored alphabet (const0 for W, :=0 for A3, a letter for Fr, the complement for Flip, a progression
//! for AP), so a shortcut keyed on "equals default", "equals zero" or "is zero-sized" is exercised by the
//! ordinary explorations.  `default_mod` measures this per algebra and `main` refuses to run otherwise.

use rlib_num_traits::ZeroOne;
use rlib_segtree::segtree_items::{Combinator, Max, MaxAdd, Min, MinAdd, Sum, SumAdd};
use rlib_segtree::SegtreeItem;
use serde::{Deserialize, Serialize};

#[derive(Clone, Debug, Serialize, Deserialize, PartialEq)]
pub enum Pred {
    /// aggregate covers at least k elements (k = 0 always true, k = n+1 always false)
    LenGe(u16),
    /// word contains a 1
    HasOne,
    /// word contains at least two 1s
    TwoOnes,
    /// word contains a 1 followed (not necessarily adjacently) by a 0 — order sensitive
    OneThenZero,
    /// free algebra: some element's most recent modification is m
    LastMod(u8),
    /// value >= t
    VGe(i64),
    /// value <= t
    VLe(i64),
    /// ANCHORED predicates: monotone along ONE searched side only.  "The block's first element is b and q holds":
    /// for a search to the right the first element is fixed, so this is monotone along growing r whenever
    /// q is, but it is not monotone under extension to the left (offered to `lower_bound` only)
    FirstIs(u8, Box<Pred>),
    /// mirror image: "the block's last element is b and q holds" (offered to `lower_bound_rev` only)
    LastIs(u8, Box<Pred>),
    /// predicate on the first / second component of a Combinator
    L(Box<Pred>),
    R(Box<Pred>),
}

pub trait Alg: Sync + Send + 'static {
    type T: SegtreeItem<Self::M> + Clone + Default + Send + Sync + std::fmt::Debug;
    /// every std trait a library could reasonably start to require of a modifier
    type M: Copy + Default + Eq + Ord + std::hash::Hash + Send + Sync + std::fmt::Debug + 'static;
    /// logical element of the plain reference array
    type E: Clone + Send + Sync + PartialEq + std::fmt::Debug;
    /// what a user can observe of an aggregate
    type Obs: PartialEq + std::fmt::Debug;
    const NAME: &'static str;
    /// Does `M::default()` act as the identity on the plain array?  Allowed only where the modifiers are
    /// plain additive numbers (zero) or where modifying is a no-op altogether (the non-lazy built-ins with
    /// `M = ()`); everywhere else the default must be a non-identity letter of the alphabet.
    const DEFAULT_MOD_IS_IDENTITY: bool = false;
    /// number of distinct element letters (`elem(idx, ..)` for idx < n_elems)
    fn n_elems() -> usize;
    fn elem(idx: usize, fresh: &mut u32) -> Self::E;
    /// the item a user stores for element e
    fn item(e: &Self::E) -> Self::T;
    /// the same for array position i (items that record their absolute position)
    fn item_at(e: &Self::E, _i: usize) -> Self::T {
        Self::item(e)
    }
    /// the idx-th modifier of the alphabet for a modification whose range starts at l
    fn modifier(idx: usize, _l: usize) -> Self::M {
        Self::mods().swap_remove(idx)
    }
    fn dirty_item_at(e: &Self::E, _i: usize) -> Option<Self::T> {
        Self::dirty_item(e)
    }
    /// can a tree be built by `new(n, value)` (copies of ONE item)?  Not for items that record their position.
    fn fillable() -> bool {
        true
    }
    fn mods() -> Vec<Self::M>;
    /// Does the algebra restrict which modifications are inside the domain (see `mod_ok`)?
    const HAS_DOMAIN: bool = false;
    /// Is modifying element e by m inside the property's domain (the result fits the value type)?  A range
    /// modification that would take some covered element out of the domain is not explored (and counted).
    fn mod_ok(_e: &Self::E, _m: &Self::M) -> bool {
        true
    }
    /// the modifier applied to ONE element of the plain array
    fn apply(e: &mut Self::E, m: &Self::M);
    /// the same for the k-th element (0-based) of the modified range: modifiers such as "add an arithmetic
    /// progression" act on each covered element individually but depend on its offset in the range
    fn apply_at(e: &mut Self::E, m: &Self::M, _k: usize) {
        Self::apply(e, m)
    }
    /// left-to-right merge of a slice of the plain array, as observed
    fn fold(xs: &[Self::E]) -> Self::Obs;
    fn observe(t: &Self::T) -> Self::Obs;
    fn preds(n: usize) -> Vec<Pred>;
    /// Further predicates for the explorations of this algebra ON ITS OWN (not handed on to the Combinator /
    /// Pair / Via algebras built from it): the anchored ones, which are monotone along one searched side only.
    fn extra_preds(_n: usize) -> Vec<Pred> {
        vec![]
    }
    /// Is p inside the property's domain for a search from `pos` (rightwards if `fwd`, leftwards if not) on
    /// this particular array, i.e. monotone along the ranges [pos..=r] growing to the right, resp. [l..=pos]
    /// growing to the left?  Nothing is demanded of p on ranges that extend to the OTHER side of `pos`.
    fn pred_ok_at(_p: &Pred, _model: &[Self::E], _pos: usize, _fwd: bool) -> bool {
        true
    }
    fn holds(p: &Pred, o: &Self::Obs) -> bool;
    /// The same logical element as `item(e)` but carrying a pending modifier, as an item read back from
    /// another tree by `ask(i, i)` after a range modification would (the tree never pushes from a
    /// single-element node, so the tag must never be read).  None: the item type has no such form.
    fn dirty_item(_e: &Self::E) -> Option<Self::T> {
        None
    }
    /// number of elements an observed aggregate covers, if the observation tells (lets the search oracle
    /// compare a shown aggregate with ONE candidate fold instead of all of them)
    fn obs_len(_o: &Self::Obs) -> Option<usize> {
        None
    }
    /// Is `got` an acceptable result for the range holding `xs`?  Default: equal to the fold.  Items whose
    /// merge may return either of two elements that compare equal override it ("one of the minimal
    /// elements of the range", never an element that is not in the range).
    fn accept(got: &Self::Obs, xs: &[Self::E]) -> bool {
        *got == Self::fold(xs)
    }
    /// Does p hold on the fold of model[l..=r]?  Default: fold and test; algebras whose predicates only
    /// look at cheap features override it (the size sweep runs searches on arrays of 4097 elements).
    fn holds_on(p: &Pred, model: &[Self::E], l: usize, r: usize) -> bool {
        Self::holds(p, &Self::fold(&model[l..=r]))
    }
    /// canonical bytes of one node of the implementation
    fn encode(t: &Self::T, out: &mut Vec<u8>);
    fn encode_elem(e: &Self::E, out: &mut Vec<u8>);
}

/// What `M::default()` is for an algebra, measured on the alphabets the explorations use.
pub struct DefaultMod {
    pub rendering: String,
    /// it is one of the modifiers the explorations apply (for a range starting at 0)
    pub in_alphabet: bool,
    /// applying it to some element letter changes the plain array
    pub acts: bool,
    pub zero_sized: bool,
}

pub fn default_mod<A: Alg>() -> DefaultMod {
    let d = A::M::default();
    let in_alphabet = (0..A::mods().len()).any(|i| A::modifier(i, 0) == d);
    let mut fresh = 0u32;
    let acts = (0..A::n_elems()).any(|i| {
        let e = A::elem(i, &mut fresh);
        let mut x = e.clone();
        A::apply_at(&mut x, &d, 0);
        x != e
    });
    DefaultMod { rendering: format!("{:?}", d), in_alphabet, acts, zero_sized: std::mem::size_of::<A::M>() == 0 }
}

// ------------------------------------------------------------------------------------------------
// W: words over {0,1} (free monoid: non-commutative merge) with the four functions {0,1}->{0,1} as
// modifiers (not ∘ const0 != const0 ∘ not).  Finite for a fixed n, so the state space closes.
// The modifier type is u8 (a truth table), so `M::default()` = 0b00 = const0: not the identity.

#[derive(Clone, Copy, Debug, PartialEq, Eq, Hash, PartialOrd, Ord)]
pub struct W {
    pub len: u8,
    pub bits: u64,
    /// pending function as a truth table: bit0 = f(0), bit1 = f(1); identity = 0b10
    pub tag: u8,
}

const ID: u8 = 0b10;

impl Default for W {
    fn default() -> Self {
        W { len: 0, bits: 0, tag: ID }
    }
}

fn fapply(f: u8, x: u64) -> u64 {
    ((f >> x) & 1) as u64
}

/// g after f
fn fcompose(g: u8, f: u8) -> u8 {
    (fapply(g, fapply(f, 0)) | (fapply(g, fapply(f, 1)) << 1)) as u8
}

fn mask(len: u8) -> u64 {
    if len >= 64 {
        u64::MAX
    } else {
        (1u64 << len) - 1
    }
}

impl SegtreeItem<u8> for W {
    fn merge(l: &Self, r: &Self) -> Self {
        // a broken tree may merge a node twice: keep the arithmetic total (length saturates at 64,
        // the oracle has long failed by then)
        let len = (l.len as u32 + r.len as u32).min(64) as u8;
        let bits = if l.len >= 64 { l.bits } else { (l.bits | (r.bits << l.len)) & mask(len) };
        W { len, bits, tag: ID }
    }

    fn modify(&mut self, f: &u8) {
        let m = mask(self.len);
        self.bits = match *f {
            0b10 => self.bits,
            0b01 => !self.bits & m,
            0b00 => 0,
            _ => m,
        };
        // A node that covers a single element has no children to push to, so its pending function can
        // never be read by any tree; recording it there would only multiply the state space.
        if self.len >= 2 {
            self.tag = fcompose(*f, self.tag);
        }
    }

    fn push(&mut self, l: &mut Self, r: &mut Self) {
        if self.tag != ID {
            let t = self.tag;
            l.modify(&t);
            r.modify(&t);
            self.tag = ID;
        }
    }
}

pub struct AlgW;

impl Alg for AlgW {
    type T = W;
    type M = u8;
    type E = u8;
    type Obs = (u8, u64);
    const NAME: &'static str = "W(words over {0,1}; id/not/const0/const1)";
    fn n_elems() -> usize {
        2
    }
    fn elem(idx: usize, _fresh: &mut u32) -> u8 {
        idx as u8
    }
    fn item(e: &u8) -> W {
        W { len: 1, bits: *e as u64, tag: ID }
    }
    fn dirty_item(e: &u8) -> Option<W> {
        Some(W { len: 1, bits: *e as u64, tag: 0b01 })
    }
    fn mods() -> Vec<u8> {
        vec![0b10, 0b01, 0b00, 0b11]
    }
    fn apply(e: &mut u8, m: &u8) {
        *e = fapply(*m, *e as u64) as u8;
    }
    fn fold(xs: &[u8]) -> (u8, u64) {
        let mut bits = 0u64;
        for (i, &x) in xs.iter().enumerate() {
            bits |= (x as u64) << i;
        }
        (xs.len() as u8, bits)
    }
    fn observe(t: &W) -> (u8, u64) {
        (t.len, t.bits)
    }
    fn obs_len(o: &(u8, u64)) -> Option<usize> {
        Some(o.0 as usize)
    }
    fn preds(n: usize) -> Vec<Pred> {
        let mut v: Vec<Pred> = (0..=n as u16 + 1).map(Pred::LenGe).collect();
        v.extend([Pred::HasOne, Pred::TwoOnes, Pred::OneThenZero]);
        v
    }
    /// "starts with a 1" (the answer is l itself or none) and "starts with a 1 and a 0 follows" (the answer
    /// lies inside) for the search to the right; "ends with a 0" and "ends with a 0 and a 1 precedes it" for
    /// the search to the left.  Whether they hold on a block says nothing about a block that reaches further
    /// to the other side, so a search that consults such a block (the root, a whole node that is only partly
    /// inside the searched side) returns a wrong index, not merely shows a wrong aggregate.
    /// (Up to n = 6: the closure for n = 7 of the thorough tier is as large as the budget allows.)
    fn extra_preds(n: usize) -> Vec<Pred> {
        if n > 6 {
            return vec![];
        }
        vec![
            Pred::FirstIs(1, Box::new(Pred::LenGe(1))),
            Pred::FirstIs(1, Box::new(Pred::OneThenZero)),
            Pred::LastIs(0, Box::new(Pred::LenGe(1))),
            Pred::LastIs(0, Box::new(Pred::OneThenZero)),
        ]
    }
    fn pred_ok_at(p: &Pred, _model: &[u8], _pos: usize, fwd: bool) -> bool {
        match p {
            Pred::FirstIs(..) => fwd,
            Pred::LastIs(..) => !fwd,
            _ => true,
        }
    }
    fn holds(p: &Pred, o: &(u8, u64)) -> bool {
        let (len, bits) = *o;
        match p {
            Pred::FirstIs(b, q) => len >= 1 && (bits & 1) as u8 == *b && Self::holds(q, o),
            Pred::LastIs(b, q) => len >= 1 && ((bits >> (len - 1).min(63)) & 1) as u8 == *b && Self::holds(q, o),
            Pred::LenGe(k) => len as u16 >= *k,
            Pred::HasOne => bits != 0,
            Pred::TwoOnes => bits.count_ones() >= 2,
            Pred::OneThenZero => {
                // first 1, then any 0 above it
                if bits == 0 {
                    false
                } else {
                    let first = bits.trailing_zeros() as u8;
                    (first + 1..len).any(|i| (bits >> i) & 1 == 0)
                }
            }
            _ => unreachable!(),
        }
    }
    fn encode(t: &W, out: &mut Vec<u8>) {
        out.push(t.len);
        out.push(t.tag);
        out.extend_from_slice(&t.bits.to_le_bytes()[..2]);
        if t.len > 16 {
            out.extend_from_slice(&t.bits.to_le_bytes()[2..]);
        }
    }
    fn encode_elem(e: &u8, out: &mut Vec<u8>) {
        out.push(*e);
    }
}

// ------------------------------------------------------------------------------------------------
// Z3 values with affine modifiers generated by +1 and :=0 (second closing algebra): value word +
// pending affine map x -> a*x + b with a in {0,1}.  `M::default()` = (0, 0) = the assignment :=0.

#[derive(Clone, Debug, PartialEq, Eq, Hash, PartialOrd, Ord)]
pub struct A3 {
    pub vals: Vec<u8>,
    /// pending map: (a, b) meaning x -> a*x + b (mod 3), identity = (1, 0)
    pub tag: (u8, u8),
}

impl Default for A3 {
    fn default() -> Self {
        A3 { vals: vec![], tag: (1, 0) }
    }
}

impl SegtreeItem<(u8, u8)> for A3 {
    fn merge(l: &Self, r: &Self) -> Self {
        let mut vals = l.vals.clone();
        vals.extend_from_slice(&r.vals);
        vals.truncate(64);
        A3 { vals, tag: (1, 0) }
    }
    fn modify(&mut self, f: &(u8, u8)) {
        for v in self.vals.iter_mut() {
            *v = (f.0 * *v + f.1) % 3;
        }
        if self.vals.len() >= 2 {
            // f after tag
            self.tag = ((f.0 * self.tag.0) % 3, (f.0 * self.tag.1 + f.1) % 3);
        }
    }
    fn push(&mut self, l: &mut Self, r: &mut Self) {
        if self.tag != (1, 0) {
            let t = self.tag;
            l.modify(&t);
            r.modify(&t);
            self.tag = (1, 0);
        }
    }
}

pub struct AlgA3;

impl Alg for AlgA3 {
    type T = A3;
    type M = (u8, u8);
    type E = u8;
    type Obs = Vec<u8>;
    const NAME: &'static str = "A3(words over Z3; +1 and :=0)";
    fn n_elems() -> usize {
        3
    }
    fn elem(idx: usize, _f: &mut u32) -> u8 {
        idx as u8
    }
    fn item(e: &u8) -> A3 {
        A3 { vals: vec![*e], tag: (1, 0) }
    }
    fn dirty_item(e: &u8) -> Option<A3> {
        Some(A3 { vals: vec![*e], tag: (1, 1) })
    }
    fn mods() -> Vec<(u8, u8)> {
        vec![(1, 1), (0, 0)]
    }
    fn apply(e: &mut u8, m: &(u8, u8)) {
        *e = (m.0 * *e + m.1) % 3;
    }
    fn fold(xs: &[u8]) -> Vec<u8> {
        xs.to_vec()
    }
    fn observe(t: &A3) -> Vec<u8> {
        t.vals.clone()
    }
    fn obs_len(o: &Vec<u8>) -> Option<usize> {
        Some(o.len())
    }
    fn preds(n: usize) -> Vec<Pred> {
        vec![Pred::LenGe(0), Pred::LenGe(1), Pred::LenGe(2), Pred::LenGe(n as u16), Pred::LenGe(n as u16 + 1), Pred::HasOne, Pred::OneThenZero]
    }
    fn holds(p: &Pred, o: &Vec<u8>) -> bool {
        match p {
            Pred::LenGe(k) => o.len() >= *k as usize,
            Pred::HasOne => o.contains(&1),
            Pred::OneThenZero => o.iter().position(|&x| x == 1).map_or(false, |i| o[i + 1..].contains(&0)),
            _ => unreachable!(),
        }
    }
    fn encode(t: &A3, out: &mut Vec<u8>) {
        out.push(t.vals.len() as u8);
        out.extend_from_slice(&t.vals);
        out.push(t.tag.0 * 3 + t.tag.1);
    }
    fn encode_elem(e: &u8, out: &mut Vec<u8>) {
        out.push(*e);
    }
}

// ------------------------------------------------------------------------------------------------
// Fr: the free algebra.  An aggregate is the list of (element id, modifiers applied to it in order);
// a pending tag is the list of modifier ids not yet forwarded.  Every lawful (T, M) is a homomorphic
// image of it, so a wrong term here is a wrong answer for some lawful item type.  No letter is the
// identity; the letters are 1 and 0, so `M::default()` is a letter.

#[derive(Clone, Debug, PartialEq, Eq, Hash, PartialOrd, Ord, Default)]
pub struct Fr {
    pub elems: Vec<(u32, Vec<u8>)>,
    pub pend: Vec<u8>,
}

impl SegtreeItem<u8> for Fr {
    fn merge(l: &Self, r: &Self) -> Self {
        let mut elems = l.elems.clone();
        elems.extend(r.elems.iter().cloned());
        elems.truncate(1 << 14);
        Fr { elems, pend: vec![] }
    }
    fn modify(&mut self, m: &u8) {
        for e in self.elems.iter_mut() {
            e.1.push(*m);
        }
        if self.elems.len() >= 2 {
            self.pend.push(*m);
        }
    }
    fn push(&mut self, l: &mut Self, r: &mut Self) {
        for m in std::mem::take(&mut self.pend) {
            l.modify(&m);
            r.modify(&m);
        }
    }
}

pub struct AlgFr;

impl Alg for AlgFr {
    type T = Fr;
    type M = u8;
    type E = (u32, Vec<u8>);
    type Obs = Vec<(u32, Vec<u8>)>;
    const NAME: &'static str = "Fr(free algebra: element ids with modification histories)";
    fn n_elems() -> usize {
        1
    }
    fn elem(_idx: usize, fresh: &mut u32) -> (u32, Vec<u8>) {
        *fresh += 1;
        (*fresh, vec![])
    }
    fn item(e: &(u32, Vec<u8>)) -> Fr {
        Fr { elems: vec![e.clone()], pend: vec![] }
    }
    fn dirty_item(e: &(u32, Vec<u8>)) -> Option<Fr> {
        Some(Fr { elems: vec![e.clone()], pend: vec![2] })
    }
    fn mods() -> Vec<u8> {
        vec![1, 0]
    }
    fn apply(e: &mut (u32, Vec<u8>), m: &u8) {
        e.1.push(*m);
    }
    fn fold(xs: &[(u32, Vec<u8>)]) -> Vec<(u32, Vec<u8>)> {
        xs.to_vec()
    }
    fn observe(t: &Fr) -> Vec<(u32, Vec<u8>)> {
        t.elems.clone()
    }
    fn obs_len(o: &Vec<(u32, Vec<u8>)>) -> Option<usize> {
        Some(o.len())
    }
    fn preds(n: usize) -> Vec<Pred> {
        vec![Pred::LenGe(0), Pred::LenGe(1), Pred::LenGe(2), Pred::LenGe(n as u16), Pred::LenGe(n as u16 + 1), Pred::LastMod(1)]
    }
    fn holds(p: &Pred, o: &Vec<(u32, Vec<u8>)>) -> bool {
        match p {
            Pred::LenGe(k) => o.len() >= *k as usize,
            Pred::LastMod(m) => o.iter().any(|e| e.1.last() == Some(m)),
            _ => unreachable!(),
        }
    }
    fn holds_on(p: &Pred, model: &[(u32, Vec<u8>)], l: usize, r: usize) -> bool {
        match p {
            Pred::LenGe(k) => r + 1 - l >= *k as usize,
            Pred::LastMod(m) => model[l..=r].iter().any(|e| e.1.last() == Some(m)),
            _ => unreachable!(),
        }
    }
    fn encode(t: &Fr, out: &mut Vec<u8>) {
        out.extend_from_slice(&(t.elems.len() as u16).to_le_bytes());
        for e in &t.elems {
            Self::encode_elem(e, out);
        }
        out.push(t.pend.len() as u8);
        out.extend_from_slice(&t.pend);
    }
    fn encode_elem(e: &(u32, Vec<u8>), out: &mut Vec<u8>) {
        out.extend_from_slice(&(e.0 as u16).to_le_bytes());
        out.push(e.1.len() as u8);
        out.extend_from_slice(&e.1);
    }
}

// ------------------------------------------------------------------------------------------------
// tiny modular value types for the built-in items that can close (with the arithmetic / ordering surface
// of a primitive integer, should a built-in item start to ask for more of its value type)

macro_rules! zmod {
    ($name:ident, $m:expr) => {
        #[derive(Clone, Copy, Debug, PartialEq, Eq, Hash, PartialOrd, Ord, Default)]
        pub struct $name(pub u8);
        impl $name {
            /// the modulus (up to 256: the arithmetic below is done in u16)
            pub const M: u16 = $m;
            fn red(x: u16) -> $name {
                $name((x % Self::M) as u8)
            }
        }
        impl std::ops::Add for $name {
            type Output = $name;
            fn add(self, r: $name) -> $name {
                Self::red(self.0 as u16 + r.0 as u16)
            }
        }
        impl std::ops::Sub for $name {
            type Output = $name;
            fn sub(self, r: $name) -> $name {
                Self::red(self.0 as u16 + Self::M - r.0 as u16 % Self::M)
            }
        }
        impl std::ops::Neg for $name {
            type Output = $name;
            fn neg(self) -> $name {
                Self::red(Self::M - self.0 as u16 % Self::M)
            }
        }
        impl std::ops::Mul for $name {
            type Output = $name;
            fn mul(self, r: $name) -> $name {
                Self::red(self.0 as u16 * r.0 as u16)
            }
        }
        impl std::ops::AddAssign for $name {
            fn add_assign(&mut self, r: $name) {
                *self = *self + r;
            }
        }
        impl std::ops::SubAssign for $name {
            fn sub_assign(&mut self, r: $name) {
                *self = *self - r;
            }
        }
        impl std::ops::MulAssign for $name {
            fn mul_assign(&mut self, r: $name) {
                *self = *self * r;
            }
        }
        impl std::iter::Sum for $name {
            fn sum<I: Iterator<Item = $name>>(it: I) -> $name {
                it.fold($name(0), |a, b| a + b)
            }
        }
        impl From<u8> for $name {
            fn from(v: u8) -> $name {
                Self::red(v as u16)
            }
        }
        impl ZeroOne for $name {
            const ZERO: $name = $name(0);
            const ONE: $name = $name(1);
        }
        impl rlib_num_traits::MinMax for $name {
            const MIN: $name = $name(0);
            const MAX: $name = $name(($m - 1) as u8);
        }
    };
}
zmod!(Z2, 2);
zmod!(Z3, 3);
zmod!(Z4, 4);
zmod!(Z5, 5);
zmod!(Z7, 7);
// a byte that wraps, as `std::num::Wrapping<u8>` does
zmod!(Z256, 256);

pub struct AlgSumZ3;
impl Alg for AlgSumZ3 {
    type T = Sum<Z3>;
    type M = ();
    type E = u8;
    type Obs = u8;
    const NAME: &'static str = "Sum<Z3>";
    const DEFAULT_MOD_IS_IDENTITY: bool = true;
    fn n_elems() -> usize {
        3
    }
    fn elem(idx: usize, _f: &mut u32) -> u8 {
        idx as u8
    }
    fn item(e: &u8) -> Sum<Z3> {
        Sum::new(Z3(*e))
    }
    fn mods() -> Vec<()> {
        vec![()]
    }
    fn apply(_e: &mut u8, _m: &()) {}
    fn fold(xs: &[u8]) -> u8 {
        xs.iter().fold(0, |a, b| (a + b) % 3)
    }
    fn observe(t: &Sum<Z3>) -> u8 {
        t.v.0
    }
    fn preds(_n: usize) -> Vec<Pred> {
        vec![]
    }
    fn holds(_p: &Pred, _o: &u8) -> bool {
        unreachable!()
    }
    fn encode(t: &Sum<Z3>, out: &mut Vec<u8>) {
        out.push(t.v.0);
    }
    fn encode_elem(e: &u8, out: &mut Vec<u8>) {
        out.push(*e);
    }
}

// `SumAdd<T>` keeps the NUMBER OF ELEMENTS of a node in the scalar type T (`len: T`, needed for v += md * len).
// Over a scalar in which small integers wrap, an inner node's `len` can therefore equal the `len` of a leaf
// (length = 1 mod m), of the empty aggregate (length = 0 mod m) or of any other node.  The explorations run
// it over Z/m for m = 2, 3, 4, 5, 7 at sizes whose trees contain inner nodes of length = 0 and = 1 (mod m)
// (see `main`), and the size sweep runs it over a wrapping byte (node lengths 256 and 257).
macro_rules! sumadd_mod_alg {
    ($alg:ident, $z:ident, $name:expr) => {
        pub struct $alg;
        impl Alg for $alg {
            type T = SumAdd<$z>;
            type M = $z;
            type E = u8;
            /// (sum, number of elements mod m)
            type Obs = (u8, u8);
            const NAME: &'static str = $name;
            const DEFAULT_MOD_IS_IDENTITY: bool = true;
            fn n_elems() -> usize {
                2
            }
            fn elem(idx: usize, _f: &mut u32) -> u8 {
                [0u8, 1][idx]
            }
            fn item(e: &u8) -> SumAdd<$z> {
                SumAdd::new($z(*e))
            }
            fn dirty_item(e: &u8) -> Option<SumAdd<$z>> {
                let mut t = SumAdd::new($z(*e));
                t.md = $z(1);
                Some(t)
            }
            /// +1, +2 (where 2 is not 0) and, last, the type's default 0, the identity of an additive modifier
            fn mods() -> Vec<$z> {
                let mut v = vec![$z(1)];
                if $z::M > 2 {
                    v.push($z(2));
                }
                v.push($z(0));
                v
            }
            fn apply(e: &mut u8, m: &$z) {
                *e = ($z(*e) + *m).0;
            }
            fn fold(xs: &[u8]) -> (u8, u8) {
                (xs.iter().fold($z(0), |a, b| a + $z(*b)).0, (xs.len() % $z::M as usize) as u8)
            }
            fn observe(t: &SumAdd<$z>) -> (u8, u8) {
                (t.v.0, t.len.0)
            }
            /// sums in Z/m are not ordered: no threshold is monotone
            fn preds(_n: usize) -> Vec<Pred> {
                vec![]
            }
            fn holds(_p: &Pred, _o: &(u8, u8)) -> bool {
                unreachable!()
            }
            fn encode(t: &SumAdd<$z>, out: &mut Vec<u8>) {
                out.extend_from_slice(&[t.v.0, t.len.0, t.md.0]);
            }
            fn encode_elem(e: &u8, out: &mut Vec<u8>) {
                out.push(*e);
            }
        }
    };
}
sumadd_mod_alg!(AlgSumAddZ2, Z2, "SumAdd<Z2>");
sumadd_mod_alg!(AlgSumAddZ3, Z3, "SumAdd<Z3>");
sumadd_mod_alg!(AlgSumAddZ4, Z4, "SumAdd<Z4>");
sumadd_mod_alg!(AlgSumAddZ5, Z5, "SumAdd<Z5>");
sumadd_mod_alg!(AlgSumAddZ7, Z7, "SumAdd<Z7>");
sumadd_mod_alg!(AlgSumAddZ256, Z256, "SumAdd<Z256>");

macro_rules! minmax_alg {
    ($alg:ident, $item:ident, $name:expr, $pick:ident, $pred:ident, $cmp:tt) => {
        pub struct $alg;
        impl Alg for $alg {
            type T = $item<u8>;
            type M = ();
            type E = u8;
            /// None = identity (empty range is never observed through ask)
            type Obs = u8;
            const NAME: &'static str = $name;
            const DEFAULT_MOD_IS_IDENTITY: bool = true;
            /// ordinary values and the two limits of the type (one of which equals the item's Default, the
            /// identity of the merge: a genuine element may hold it)
            fn n_elems() -> usize {
                5
            }
            fn elem(idx: usize, _f: &mut u32) -> u8 {
                [1, 2, 3, u8::MIN, u8::MAX][idx]
            }
            fn item(e: &u8) -> $item<u8> {
                $item::new(*e)
            }
            fn mods() -> Vec<()> {
                vec![()]
            }
            fn apply(_e: &mut u8, _m: &()) {}
            fn fold(xs: &[u8]) -> u8 {
                xs.iter().copied().$pick().unwrap()
            }
            fn observe(t: &$item<u8>) -> u8 {
                t.v
            }
            fn preds(_n: usize) -> Vec<Pred> {
                [0, 1, 2, 3, 4, 254, 255].into_iter().map(|t| Pred::$pred(t)).collect()
            }
            fn holds(p: &Pred, o: &u8) -> bool {
                match p {
                    Pred::$pred(t) => (*o as i64) $cmp *t,
                    _ => unreachable!(),
                }
            }
            fn encode(t: &$item<u8>, out: &mut Vec<u8>) {
                out.push(t.v);
            }
            fn encode_elem(e: &u8, out: &mut Vec<u8>) {
                out.push(*e);
            }
        }
    };
}
minmax_alg!(AlgMinU8, Min, "Min<u8>", min, VLe, <=);
minmax_alg!(AlgMaxU8, Max, "Max<u8>", max, VGe, >=);

fn enc_i64(v: i64, out: &mut Vec<u8>) {
    out.extend_from_slice(&v.to_le_bytes());
}

macro_rules! minmax_add_alg {
    ($alg:ident, $item:ident, $name:expr, $pick:ident, $pred:ident, $cmp:tt, $elems:expr, $mods:expr, $domain:expr) => {
        pub struct $alg;
        impl Alg for $alg {
            type T = $item<i64>;
            type M = i64;
            type E = i64;
            type Obs = i64;
            const NAME: &'static str = $name;
            const DEFAULT_MOD_IS_IDENTITY: bool = true;
            /// whether some modification of the alphabet can take an element out of i64
            const HAS_DOMAIN: bool = $domain;
            fn mod_ok(e: &i64, m: &i64) -> bool {
                e.checked_add(*m).is_some()
            }
            fn n_elems() -> usize {
                3
            }
            fn elem(idx: usize, _f: &mut u32) -> i64 {
                $elems[idx]
            }
            fn item(e: &i64) -> $item<i64> {
                $item::new(*e)
            }
            fn dirty_item(e: &i64) -> Option<$item<i64>> {
                let mut t = $item::new(*e);
                t.md = $mods[0];
                Some(t)
            }
            fn mods() -> Vec<i64> {
                $mods.to_vec()
            }
            fn apply(e: &mut i64, m: &i64) {
                *e += *m;
            }
            fn fold(xs: &[i64]) -> i64 {
                xs.iter().copied().$pick().unwrap()
            }
            fn observe(t: &$item<i64>) -> i64 {
                t.v
            }
            /// thresholds around 0, around every element letter and at every once-modified letter
            fn preds(_n: usize) -> Vec<Pred> {
                let mut ts: Vec<i64> = (-3..=3).collect();
                let elems: [i64; 3] = $elems;
                for e in elems {
                    ts.extend([e.saturating_sub(1), e, e.saturating_add(1)]);
                    ts.extend($mods.iter().filter_map(|m: &i64| e.checked_add(*m)));
                }
                ts.sort();
                ts.dedup();
                ts.into_iter().map(|t| Pred::$pred(t)).collect()
            }
            fn holds(p: &Pred, o: &i64) -> bool {
                match p {
                    Pred::$pred(t) => *o $cmp *t,
                    _ => unreachable!(),
                }
            }
            fn encode(t: &$item<i64>, out: &mut Vec<u8>) {
                enc_i64(t.v, out);
                enc_i64(t.md, out);
            }
            fn encode_elem(e: &i64, out: &mut Vec<u8>) {
                enc_i64(*e, out);
            }
        }
    };
}
// The modifier alphabets contain 0 (= `i64::default()`, the identity of an additive modifier) next to +1 and
// -1; the element values 0, 1, -2 under them pass through 0, 1 and -1.
minmax_add_alg!(AlgMinAdd, MinAdd, "MinAdd<i64>", min, VLe, <=, [0, 1, -2], [1, -1, 2, 0], false);
minmax_add_alg!(AlgMaxAdd, MaxAdd, "MaxAdd<i64>", max, VGe, >=, [0, 1, -2], [1, -1, 2, 0], false);
// Elements equal to the extreme values of the type — for each item both the extreme that is its Default (the
// identity of min / max) and the opposite one — with modifiers that move away from the extreme (and 0) so
// that neither the plain array nor a pending sum of modifiers ever leaves the type.
minmax_add_alg!(AlgMinAddExt, MinAdd, "MinAdd<i64> at i64::MAX", min, VLe, <=, [i64::MAX, 5, i64::MAX - 1], [-1, -3, 0], false);
minmax_add_alg!(AlgMaxAddExt, MaxAdd, "MaxAdd<i64> at i64::MIN", max, VGe, >=, [i64::MIN, -5, i64::MIN + 1], [1, 3, 0], false);
minmax_add_alg!(AlgMinAddLow, MinAdd, "MinAdd<i64> at i64::MIN", min, VLe, <=, [i64::MIN, -5, i64::MIN + 1], [1, 3, 0], false);
minmax_add_alg!(AlgMaxAddHigh, MaxAdd, "MaxAdd<i64> at i64::MAX", max, VGe, >=, [i64::MAX, 5, i64::MAX - 1], [-1, -3, 0], false);
// Modifiers equal to a limit of the type: from elements on the far side of 0 one such step fits.  A
// modification that would take a covered element out of i64 is outside the domain and not explored
// (`mod_ok`); what remains keeps every pending sum of modifiers inside the type as well (all elements under a
// node received the node's pending sum, and at most one limit-sized step fits into an element).
minmax_add_alg!(AlgMinAddStep, MinAdd, "MinAdd<i64>, += i64::MAX", min, VLe, <=, [0, -1, -5], [i64::MAX, -1, 0], true);
minmax_add_alg!(AlgMaxAddStep, MaxAdd, "MaxAdd<i64>, += i64::MIN", max, VGe, >=, [0, 1, 5], [i64::MIN, 1, 0], true);

pub struct AlgSumAdd;
impl Alg for AlgSumAdd {
    type T = SumAdd<i64>;
    type M = i64;
    type E = i64;
    /// (sum, number of elements)
    type Obs = (i64, i64);
    const NAME: &'static str = "SumAdd<i64>";
    const DEFAULT_MOD_IS_IDENTITY: bool = true;
    fn n_elems() -> usize {
        3
    }
    fn elem(idx: usize, _f: &mut u32) -> i64 {
        [0, 1, -2][idx]
    }
    fn item(e: &i64) -> SumAdd<i64> {
        SumAdd::new(*e)
    }
    fn dirty_item(e: &i64) -> Option<SumAdd<i64>> {
        let mut t = SumAdd::new(*e);
        t.md = 3;
        Some(t)
    }
    fn mods() -> Vec<i64> {
        vec![1, -1, 2, 0]
    }
    fn apply(e: &mut i64, m: &i64) {
        *e += *m;
    }
    fn fold(xs: &[i64]) -> (i64, i64) {
        (xs.iter().sum(), xs.len() as i64)
    }
    fn observe(t: &SumAdd<i64>) -> (i64, i64) {
        (t.v, t.len)
    }
    fn preds(n: usize) -> Vec<Pred> {
        let mut v: Vec<Pred> = vec![Pred::LenGe(0), Pred::LenGe(1), Pred::LenGe(2), Pred::LenGe(n as u16), Pred::LenGe(n as u16 + 1)];
        v.extend((0..=3).map(Pred::VGe));
        v
    }
    /// A sum threshold over elements of both signs is in the domain of a search exactly when its truth
    /// values along the searched side are monotone (false ... false true ... true): the sums of [pos..=r] for
    /// growing r, resp. of [l..=pos] for falling l.  Elements on the other side of `pos` may be anything
    /// (a large negative element before l makes the predicate false on the whole array and true on a block).
    fn pred_ok_at(p: &Pred, model: &[i64], pos: usize, fwd: bool) -> bool {
        match p {
            Pred::VGe(t) => {
                let side: Vec<i64> = if fwd { model[pos..].to_vec() } else { model[..=pos].iter().rev().copied().collect() };
                let (mut sum, mut seen_true) = (0i64, false);
                side.iter().all(|x| {
                    sum += x;
                    let h = sum >= *t;
                    let ok = h || !seen_true;
                    seen_true |= h;
                    ok
                })
            }
            _ => true,
        }
    }
    fn holds(p: &Pred, o: &(i64, i64)) -> bool {
        match p {
            Pred::LenGe(k) => o.1 >= *k as i64,
            Pred::VGe(t) => o.0 >= *t,
            _ => unreachable!(),
        }
    }
    fn encode(t: &SumAdd<i64>, out: &mut Vec<u8>) {
        enc_i64(t.v, out);
        enc_i64(t.len, out);
        enc_i64(t.md, out);
    }
    fn encode_elem(e: &i64, out: &mut Vec<u8>) {
        enc_i64(*e, out);
    }
}

// ------------------------------------------------------------------------------------------------
// Combinator<U, V>: must behave like U and V side by side on the same array and the same history.

pub struct Comb<A, B>(std::marker::PhantomData<(A, B)>);

impl<A, B> Alg for Comb<A, B>
where
    A: Alg,
    B: Alg<M = A::M, E = A::E>,
{
    type T = Combinator<A::T, B::T>;
    type M = A::M;
    type E = A::E;
    type Obs = (A::Obs, B::Obs);
    const NAME: &'static str = "Combinator";
    const DEFAULT_MOD_IS_IDENTITY: bool = A::DEFAULT_MOD_IS_IDENTITY && B::DEFAULT_MOD_IS_IDENTITY;
    fn n_elems() -> usize {
        A::n_elems()
    }
    fn elem(idx: usize, f: &mut u32) -> A::E {
        A::elem(idx, f)
    }
    fn item(e: &A::E) -> Self::T {
        Combinator(A::item(e), B::item(e))
    }
    fn dirty_item(e: &A::E) -> Option<Self::T> {
        let (a, b) = (A::dirty_item(e), B::dirty_item(e));
        if a.is_none() && b.is_none() {
            return None;
        }
        Some(Combinator(a.unwrap_or_else(|| A::item(e)), b.unwrap_or_else(|| B::item(e))))
    }
    fn mods() -> Vec<A::M> {
        A::mods()
    }
    const HAS_DOMAIN: bool = A::HAS_DOMAIN || B::HAS_DOMAIN;
    fn mod_ok(e: &A::E, m: &A::M) -> bool {
        A::mod_ok(e, m) && B::mod_ok(e, m)
    }
    fn apply(e: &mut A::E, m: &A::M) {
        A::apply(e, m)
    }
    fn fold(xs: &[A::E]) -> Self::Obs {
        (A::fold(xs), B::fold(xs))
    }
    fn observe(t: &Self::T) -> Self::Obs {
        (A::observe(&t.0), B::observe(&t.1))
    }
    fn preds(n: usize) -> Vec<Pred> {
        let mut v: Vec<Pred> = A::preds(n).into_iter().map(|p| Pred::L(Box::new(p))).collect();
        v.extend(B::preds(n).into_iter().map(|p| Pred::R(Box::new(p))));
        v
    }
    fn pred_ok_at(p: &Pred, model: &[A::E], pos: usize, fwd: bool) -> bool {
        match p {
            Pred::L(q) => A::pred_ok_at(q, model, pos, fwd),
            Pred::R(q) => B::pred_ok_at(q, model, pos, fwd),
            _ => unreachable!(),
        }
    }
    fn holds(p: &Pred, o: &Self::Obs) -> bool {
        match p {
            Pred::L(q) => A::holds(q, &o.0),
            Pred::R(q) => B::holds(q, &o.1),
            _ => unreachable!(),
        }
    }
    fn encode(t: &Self::T, out: &mut Vec<u8>) {
        A::encode(&t.0, out);
        B::encode(&t.1, out);
    }
    fn encode_elem(e: &A::E, out: &mut Vec<u8>) {
        A::encode_elem(e, out)
    }
}

// ------------------------------------------------------------------------------------------------
// Flip: a LAZY item whose modifier carries no data: words over {0,1}, modify = complement.  Driven with
// M = () and with M = Toggle (a zero-sized struct of the harness): for both the ONLY modifier value is the
// default one and it is not the identity, and `size_of::<M>() == 0` although something can be pending.

#[derive(Clone, Copy, Debug, PartialEq, Eq, Hash, PartialOrd, Ord, Default)]
pub struct Flip {
    pub len: u8,
    pub bits: u64,
    pub pending: bool,
}

/// a zero-sized modifier type that is not `()`
#[derive(Clone, Copy, Debug, PartialEq, Eq, Hash, PartialOrd, Ord, Default)]
pub struct Toggle;

impl Flip {
    fn merged(l: &Self, r: &Self) -> Self {
        let len = (l.len as u32 + r.len as u32).min(64) as u8;
        let bits = if l.len >= 64 { l.bits } else { (l.bits | (r.bits << l.len)) & mask(len) };
        Flip { len, bits, pending: false }
    }
    fn complement(&mut self) {
        self.bits = !self.bits & mask(self.len);
        if self.len >= 2 {
            self.pending = !self.pending;
        }
    }
    fn push_down(&mut self, l: &mut Self, r: &mut Self) {
        if self.pending {
            l.complement();
            r.complement();
            self.pending = false;
        }
    }
}

macro_rules! flip_alg {
    ($alg:ident, $m:ty, $unit:expr, $name:expr) => {
        impl SegtreeItem<$m> for Flip {
            fn merge(l: &Self, r: &Self) -> Self {
                Flip::merged(l, r)
            }
            fn modify(&mut self, _m: &$m) {
                self.complement()
            }
            fn push(&mut self, l: &mut Self, r: &mut Self) {
                self.push_down(l, r)
            }
        }

        pub struct $alg;

        impl Alg for $alg {
            type T = Flip;
            type M = $m;
            type E = u8;
            type Obs = (u8, u64);
            const NAME: &'static str = $name;
            fn n_elems() -> usize {
                2
            }
            fn elem(idx: usize, _f: &mut u32) -> u8 {
                idx as u8
            }
            fn item(e: &u8) -> Flip {
                Flip { len: 1, bits: *e as u64, pending: false }
            }
            fn dirty_item(e: &u8) -> Option<Flip> {
                Some(Flip { len: 1, bits: *e as u64, pending: true })
            }
            fn mods() -> Vec<$m> {
                vec![$unit]
            }
            fn apply(e: &mut u8, _m: &$m) {
                *e ^= 1;
            }
            fn fold(xs: &[u8]) -> (u8, u64) {
                AlgW::fold(xs)
            }
            fn observe(t: &Flip) -> (u8, u64) {
                (t.len, t.bits)
            }
            fn obs_len(o: &(u8, u64)) -> Option<usize> {
                Some(o.0 as usize)
            }
            fn preds(n: usize) -> Vec<Pred> {
                AlgW::preds(n)
            }
            fn holds(p: &Pred, o: &(u8, u64)) -> bool {
                AlgW::holds(p, o)
            }
            fn encode(t: &Flip, out: &mut Vec<u8>) {
                out.push(t.len);
                out.push(t.pending as u8);
                out.extend_from_slice(&t.bits.to_le_bytes()[..2]);
            }
            fn encode_elem(e: &u8, out: &mut Vec<u8>) {
                out.push(*e);
            }
        }
    };
}
flip_alg!(AlgFlip, (), (), "Flip(words over {0,1}; data-less complement modifier, M = ())");
flip_alg!(AlgFlipZ, Toggle, Toggle, "FlipZ(words over {0,1}; data-less complement modifier, M = a zero-sized struct)");

// ------------------------------------------------------------------------------------------------
// Min / Max over records that are ordered and compared BY KEY ONLY: equal keys are different elements.
// The merge may return either of two minimal records, but never a record that is not in the range.

#[derive(Clone, Copy, Debug)]
pub struct Rec {
    pub key: u8,
    pub id: u32,
}
impl PartialEq for Rec {
    fn eq(&self, o: &Rec) -> bool {
        self.key == o.key
    }
}
impl Eq for Rec {}
impl PartialOrd for Rec {
    fn partial_cmp(&self, o: &Rec) -> Option<std::cmp::Ordering> {
        Some(self.cmp(o))
    }
}
impl Ord for Rec {
    fn cmp(&self, o: &Rec) -> std::cmp::Ordering {
        self.key.cmp(&o.key)
    }
}
impl std::hash::Hash for Rec {
    fn hash<H: std::hash::Hasher>(&self, h: &mut H) {
        self.key.hash(h)
    }
}
impl Default for Rec {
    fn default() -> Rec {
        Rec { key: 0, id: 0 }
    }
}
impl rlib_num_traits::MinMax for Rec {
    const MIN: Rec = Rec { key: 0, id: 0 };
    const MAX: Rec = Rec { key: 255, id: 0 };
}

macro_rules! rec_alg {
    ($alg:ident, $item:ident, $name:expr, $best:ident, $pred:ident, $cmp:tt) => {
        pub struct $alg;
        impl Alg for $alg {
            type T = $item<Rec>;
            type M = ();
            type E = (u8, u32);
            type Obs = (u8, u32);
            const NAME: &'static str = $name;
            const DEFAULT_MOD_IS_IDENTITY: bool = true;
            fn n_elems() -> usize {
                2
            }
            fn elem(idx: usize, fresh: &mut u32) -> (u8, u32) {
                *fresh += 1;
                (idx as u8 + 1, *fresh)
            }
            fn item(e: &(u8, u32)) -> $item<Rec> {
                $item::new(Rec { key: e.0, id: e.1 })
            }
            fn mods() -> Vec<()> {
                vec![()]
            }
            fn apply(_e: &mut (u8, u32), _m: &()) {}
            fn fold(xs: &[(u8, u32)]) -> (u8, u32) {
                // one acceptable answer (used only for display): the first best record
                let k = xs.iter().map(|e| e.0).$best().unwrap();
                *xs.iter().find(|e| e.0 == k).unwrap()
            }
            fn accept(got: &(u8, u32), xs: &[(u8, u32)]) -> bool {
                let k = xs.iter().map(|e| e.0).$best().unwrap();
                got.0 == k && xs.contains(got)
            }
            fn observe(t: &$item<Rec>) -> (u8, u32) {
                (t.v.key, t.v.id)
            }
            fn preds(_n: usize) -> Vec<Pred> {
                (0..=3).map(|t| Pred::$pred(t)).collect()
            }
            fn holds(p: &Pred, o: &(u8, u32)) -> bool {
                match p {
                    Pred::$pred(t) => (o.0 as i64) $cmp *t,
                    _ => unreachable!(),
                }
            }
            fn encode(t: &$item<Rec>, out: &mut Vec<u8>) {
                out.push(t.v.key);
                out.extend_from_slice(&(t.v.id as u16).to_le_bytes());
            }
            fn encode_elem(e: &(u8, u32), out: &mut Vec<u8>) {
                out.push(e.0);
                out.extend_from_slice(&(e.1 as u16).to_le_bytes());
            }
        }
    };
}
rec_alg!(AlgMinRec, Min, "Min<record compared by key only>", min, VLe, <=);
rec_alg!(AlgMaxRec, Max, "Max<record compared by key only>", max, VGe, >=);

// ------------------------------------------------------------------------------------------------
// AP: "add an arithmetic progression on a range" over Z5.  A modifier (l, s, d) adds s + d*(i - l) to the
// element at absolute index i >= l.  Items record the absolute index of their first element; the pending
// tag is kept RELATIVE to that index, so `push` treats its two children differently (the right child
// continues the progression after the left child's elements).  The modifier is a struct of the harness whose
// Default is the progression (l = 0, s = 2, d = 3): a letter of the alphabet for ranges that start at 0,
// and not the identity although the modifiers are additive.

#[derive(Clone, Copy, Debug, PartialEq, Eq, Hash, PartialOrd, Ord)]
pub struct ApMod {
    pub l: u8,
    pub s: u8,
    pub d: u8,
}

impl Default for ApMod {
    fn default() -> Self {
        ApMod { l: 0, s: 2, d: 3 }
    }
}

#[derive(Clone, Debug, PartialEq, Eq, Hash, PartialOrd, Ord)]
pub struct Ap {
    pub lo: u8,
    pub vals: Vec<u8>,
    /// pending progression (start, step) mod 5, relative to `lo`
    pub tag: (u8, u8),
}

impl Default for Ap {
    fn default() -> Self {
        Ap { lo: 0, vals: vec![], tag: (0, 0) }
    }
}

impl Ap {
    fn add_rel(&mut self, s: usize, d: usize) {
        for (k, v) in self.vals.iter_mut().enumerate() {
            *v = ((*v as usize + s + d * k) % 5) as u8;
        }
        if self.vals.len() >= 2 {
            self.tag = (((self.tag.0 as usize + s) % 5) as u8, ((self.tag.1 as usize + d) % 5) as u8);
        }
    }
}

impl SegtreeItem<ApMod> for Ap {
    fn merge(l: &Self, r: &Self) -> Self {
        let mut vals = l.vals.clone();
        vals.extend_from_slice(&r.vals);
        vals.truncate(64);
        Ap { lo: if l.vals.is_empty() { r.lo } else { l.lo }, vals, tag: (0, 0) }
    }
    fn modify(&mut self, m: &ApMod) {
        // this node lies inside the modified range, so lo >= l
        let off = (self.lo as usize).wrapping_sub(m.l as usize) % 5;
        self.add_rel((m.s as usize + m.d as usize * off) % 5, m.d as usize);
    }
    fn push(&mut self, l: &mut Self, r: &mut Self) {
        if self.tag != (0, 0) {
            let (s, d) = (self.tag.0 as usize, self.tag.1 as usize);
            l.add_rel(s, d);
            r.add_rel((s + d * l.vals.len()) % 5, d);
            self.tag = (0, 0);
        }
    }
}

pub struct AlgAp;

impl Alg for AlgAp {
    type T = Ap;
    type M = ApMod;
    type E = u8;
    type Obs = Vec<u8>;
    const NAME: &'static str = "AP(words over Z5; add an arithmetic progression - asymmetric push)";
    fn n_elems() -> usize {
        2
    }
    fn elem(idx: usize, _f: &mut u32) -> u8 {
        idx as u8
    }
    fn item(_e: &u8) -> Ap {
        unreachable!("AP items are built through item_at")
    }
    fn item_at(e: &u8, i: usize) -> Ap {
        Ap { lo: i as u8, vals: vec![*e], tag: (0, 0) }
    }
    fn fillable() -> bool {
        false
    }
    fn dirty_item_at(e: &u8, i: usize) -> Option<Ap> {
        Some(Ap { lo: i as u8, vals: vec![*e], tag: (1, 2) })
    }
    fn mods() -> Vec<ApMod> {
        vec![ApMod { l: 0, s: 0, d: 1 }, ApMod { l: 0, s: 1, d: 0 }, ApMod { l: 0, s: 2, d: 3 }]
    }
    fn modifier(idx: usize, l: usize) -> ApMod {
        ApMod { l: l as u8, ..Self::mods()[idx] }
    }
    fn apply(_e: &mut u8, _m: &ApMod) {
        unreachable!("AP modifiers are applied through apply_at")
    }
    fn apply_at(e: &mut u8, m: &ApMod, k: usize) {
        *e = ((*e as usize + m.s as usize + m.d as usize * k) % 5) as u8;
    }
    fn fold(xs: &[u8]) -> Vec<u8> {
        xs.to_vec()
    }
    fn observe(t: &Ap) -> Vec<u8> {
        t.vals.clone()
    }
    fn obs_len(o: &Vec<u8>) -> Option<usize> {
        Some(o.len())
    }
    fn preds(n: usize) -> Vec<Pred> {
        vec![Pred::LenGe(0), Pred::LenGe(1), Pred::LenGe(2), Pred::LenGe(n as u16), Pred::LenGe(n as u16 + 1), Pred::HasOne]
    }
    fn holds(p: &Pred, o: &Vec<u8>) -> bool {
        match p {
            Pred::LenGe(k) => o.len() >= *k as usize,
            Pred::HasOne => o.contains(&1),
            _ => unreachable!(),
        }
    }
    fn encode(t: &Ap, out: &mut Vec<u8>) {
        out.push(t.vals.len() as u8);
        out.push(if t.vals.is_empty() { 0 } else { t.lo });
        out.extend_from_slice(&t.vals);
        out.push(t.tag.0 * 5 + t.tag.1);
    }
    fn encode_elem(e: &u8, out: &mut Vec<u8>) {
        out.push(*e);
    }
}

// ------------------------------------------------------------------------------------------------
// Via<T, X>: a harness item driven through ANOTHER modifier alphabet.  `Combinator<U, V>` hands one and the
// same modifier to both parts, so a harness item can sit next to a built-in one only if it accepts the
// built-in's modifier type.  A translation X maps every modifier k of that type to a modifier of the
// harness algebra; the wrapped item composes and pushes the translated modifiers exactly as before, so the
// laws carry over whatever X is (the tree never composes modifiers itself, it only hands them to items).
// The translations below are chosen so that the two parts of a pair are INDEPENDENT: modifiers that cancel
// in the built-in part (+1 then -1, or 0) do not cancel in the harness part, a modifier that is the
// identity of the harness part (+2 for the words) is not the identity of the built-in part, and the
// harness part's modifiers do not commute.  The DEFAULT value of the outer modifier type (0, Z4(0), ()) is in
// every alphabet and is translated to a non-identity of the harness part.

pub trait Tr: Send + Sync + 'static {
    /// the outer modifier type (the built-in item's)
    type K: Copy + Default + Eq + Ord + std::hash::Hash + Send + Sync + std::fmt::Debug + 'static;
    /// the harness algebra's own modifier type
    type M;
    fn alphabet() -> Vec<Self::K>;
    fn tr(k: &Self::K) -> Self::M;
}

pub struct Via<T, X>(pub T, std::marker::PhantomData<fn() -> X>);

impl<T, X> Via<T, X> {
    fn wrap(t: T) -> Self {
        Via(t, std::marker::PhantomData)
    }
}
impl<T: Clone, X> Clone for Via<T, X> {
    fn clone(&self) -> Self {
        Via::wrap(self.0.clone())
    }
}
impl<T: Default, X> Default for Via<T, X> {
    fn default() -> Self {
        Via::wrap(T::default())
    }
}
impl<T: std::fmt::Debug, X> std::fmt::Debug for Via<T, X> {
    fn fmt(&self, f: &mut std::fmt::Formatter<'_>) -> std::fmt::Result {
        self.0.fmt(f)
    }
}
impl<T: Copy, X> Copy for Via<T, X> {}
impl<T: PartialEq, X> PartialEq for Via<T, X> {
    fn eq(&self, o: &Self) -> bool {
        self.0 == o.0
    }
}
impl<T: Eq, X> Eq for Via<T, X> {}
impl<T: PartialOrd, X> PartialOrd for Via<T, X> {
    fn partial_cmp(&self, o: &Self) -> Option<std::cmp::Ordering> {
        self.0.partial_cmp(&o.0)
    }
}
impl<T: Ord, X> Ord for Via<T, X> {
    fn cmp(&self, o: &Self) -> std::cmp::Ordering {
        self.0.cmp(&o.0)
    }
}
impl<T: std::hash::Hash, X> std::hash::Hash for Via<T, X> {
    fn hash<H: std::hash::Hasher>(&self, h: &mut H) {
        self.0.hash(h)
    }
}

impl<T: SegtreeItem<X::M>, X: Tr> SegtreeItem<X::K> for Via<T, X> {
    fn merge(l: &Self, r: &Self) -> Self {
        Via::wrap(T::merge(&l.0, &r.0))
    }
    fn modify(&mut self, k: &X::K) {
        self.0.modify(&X::tr(k));
    }
    fn push(&mut self, l: &mut Self, r: &mut Self) {
        self.0.push(&mut l.0, &mut r.0);
    }
}

/// The algebra A with its items wrapped in `Via<_, X>`: same elements, same observations, same predicates;
/// the modifier alphabet is X's and acts on the plain array through the translation.
pub struct ViaAlg<A, X>(std::marker::PhantomData<(A, X)>);

impl<A: Alg, X: Tr<M = A::M>> Alg for ViaAlg<A, X> {
    type T = Via<A::T, X>;
    type M = X::K;
    type E = A::E;
    type Obs = A::Obs;
    const NAME: &'static str = "Via";
    fn n_elems() -> usize {
        A::n_elems()
    }
    fn elem(idx: usize, f: &mut u32) -> A::E {
        A::elem(idx, f)
    }
    fn item(e: &A::E) -> Self::T {
        Via::wrap(A::item(e))
    }
    fn dirty_item(e: &A::E) -> Option<Self::T> {
        A::dirty_item(e).map(Via::wrap)
    }
    fn mods() -> Vec<X::K> {
        X::alphabet()
    }
    const HAS_DOMAIN: bool = A::HAS_DOMAIN;
    fn mod_ok(e: &A::E, k: &X::K) -> bool {
        A::mod_ok(e, &X::tr(k))
    }
    fn apply(e: &mut A::E, k: &X::K) {
        A::apply(e, &X::tr(k))
    }
    fn fold(xs: &[A::E]) -> A::Obs {
        A::fold(xs)
    }
    fn observe(t: &Self::T) -> A::Obs {
        A::observe(&t.0)
    }
    fn obs_len(o: &A::Obs) -> Option<usize> {
        A::obs_len(o)
    }
    fn accept(got: &A::Obs, xs: &[A::E]) -> bool {
        A::accept(got, xs)
    }
    fn preds(n: usize) -> Vec<Pred> {
        A::preds(n)
    }
    fn pred_ok_at(p: &Pred, model: &[A::E], pos: usize, fwd: bool) -> bool {
        A::pred_ok_at(p, model, pos, fwd)
    }
    fn holds(p: &Pred, o: &A::Obs) -> bool {
        A::holds(p, o)
    }
    fn holds_on(p: &Pred, model: &[A::E], l: usize, r: usize) -> bool {
        A::holds_on(p, model, l, r)
    }
    fn encode(t: &Self::T, out: &mut Vec<u8>) {
        A::encode(&t.0, out)
    }
    fn encode_elem(e: &A::E, out: &mut Vec<u8>) {
        A::encode_elem(e, out)
    }
}

/// i64 additions -> the four functions {0,1}->{0,1}, a bijection on {+1, -1, +2, 0} that maps neither
/// identity to the other: +1 -> not, -1 -> const0 (so +1 then -1 is const0, -1 then +1 is const1),
/// +2 -> identity, 0 -> const1.
pub struct AddAsFn;
impl Tr for AddAsFn {
    type K = i64;
    type M = u8;
    fn alphabet() -> Vec<i64> {
        vec![1, -1, 2, 0]
    }
    fn tr(k: &i64) -> u8 {
        match *k {
            1 => 0b01,
            -1 => 0b00,
            2 => ID,
            _ => 0b11,
        }
    }
}

/// i64 additions -> letters of the free algebra (injective: the harness part records the exact sequence of
/// modifiers, so every lawful partner of the built-in item is a homomorphic image of this one)
pub struct AddAsLetter;
impl Tr for AddAsLetter {
    type K = i64;
    type M = u8;
    fn alphabet() -> Vec<i64> {
        vec![1, -1, 2, 0]
    }
    fn tr(k: &i64) -> u8 {
        match *k {
            1 => 1,
            -1 => 2,
            2 => 3,
            _ => 4,
        }
    }
}

/// i64 additions -> affine maps of Z3: +1 -> x+1, -1 -> :=0, +2 -> x+2, 0 -> :=1
pub struct AddAsAffine;
impl Tr for AddAsAffine {
    type K = i64;
    type M = (u8, u8);
    fn alphabet() -> Vec<i64> {
        vec![1, -1, 2, 0]
    }
    fn tr(k: &i64) -> (u8, u8) {
        match *k {
            1 => (1, 1),
            -1 => (0, 0),
            2 => (1, 2),
            _ => (0, 1),
        }
    }
}

/// Z4 additions -> functions {0,1}->{0,1}, a bijection that maps neither identity to the other: 1 -> not,
/// 2 -> const0, 3 -> identity, 0 -> const1 (1+3 = 2+2 = 0 in Z4, while identity∘not, const0∘const0 are not the
/// identity) — finite on both sides, so the pair closes
pub struct Z4AsFn;
impl Tr for Z4AsFn {
    type K = Z4;
    type M = u8;
    fn alphabet() -> Vec<Z4> {
        vec![Z4(1), Z4(2), Z4(3), Z4(0)]
    }
    fn tr(k: &Z4) -> u8 {
        match k.0 {
            1 => 0b01,
            2 => 0b00,
            3 => ID,
            _ => 0b11,
        }
    }
}

/// the data-less modifier of the NON-lazy built-ins (`M = ()`) -> x+1 on Z3 (order 3, so the harness part
/// is lazy although its partner never has anything pending)
pub struct UnitAsInc;
impl Tr for UnitAsInc {
    type K = ();
    type M = (u8, u8);
    fn alphabet() -> Vec<()> {
        vec![()]
    }
    fn tr(_k: &()) -> (u8, u8) {
        (1, 1)
    }
}

pub type AlgWAdd = ViaAlg<AlgW, AddAsFn>;
pub type AlgFrAdd = ViaAlg<AlgFr, AddAsLetter>;
pub type AlgA3Add = ViaAlg<AlgA3, AddAsAffine>;
pub type AlgWZ4 = ViaAlg<AlgW, Z4AsFn>;
pub type AlgA3Unit = ViaAlg<AlgA3, UnitAsInc>;

// ------------------------------------------------------------------------------------------------
// Pair<A, B>: Combinator<A::T, B::T> of two INDEPENDENT algebras that share only the modifier type.  The
// reference is the pair of the two references: one plain array per part, every modifier applied to both.

pub struct Pair<A, B>(std::marker::PhantomData<(A, B)>);

fn unzip<X: Clone, Y: Clone>(xs: &[(X, Y)]) -> (Vec<X>, Vec<Y>) {
    xs.iter().cloned().unzip()
}

impl<A, B> Alg for Pair<A, B>
where
    A: Alg,
    B: Alg<M = A::M>,
{
    type T = Combinator<A::T, B::T>;
    type M = A::M;
    type E = (A::E, B::E);
    type Obs = (A::Obs, B::Obs);
    const NAME: &'static str = "Pair";
    /// the component-wise default: a non-identity as soon as it is one for either part
    const DEFAULT_MOD_IS_IDENTITY: bool = A::DEFAULT_MOD_IS_IDENTITY && B::DEFAULT_MOD_IS_IDENTITY;
    /// two element letters, (first of A, first of B) and (second of A, second of B) (an alphabet of one letter
    /// repeating): the parts interact through their pending modifiers, not through their values, and the
    /// range modifications make the values differ anyway; the full element alphabets are explored in the
    /// parts' own runs
    fn n_elems() -> usize {
        A::n_elems().max(B::n_elems()).min(2)
    }
    fn elem(idx: usize, f: &mut u32) -> Self::E {
        (A::elem(idx % A::n_elems(), f), B::elem(idx % B::n_elems(), f))
    }
    fn item(e: &Self::E) -> Self::T {
        Combinator(A::item(&e.0), B::item(&e.1))
    }
    fn item_at(e: &Self::E, i: usize) -> Self::T {
        Combinator(A::item_at(&e.0, i), B::item_at(&e.1, i))
    }
    fn fillable() -> bool {
        A::fillable() && B::fillable()
    }
    fn dirty_item(e: &Self::E) -> Option<Self::T> {
        let (a, b) = (A::dirty_item(&e.0), B::dirty_item(&e.1));
        if a.is_none() && b.is_none() {
            return None;
        }
        Some(Combinator(a.unwrap_or_else(|| A::item(&e.0)), b.unwrap_or_else(|| B::item(&e.1))))
    }
    /// union of the two alphabets, first part's letters first
    fn mods() -> Vec<A::M> {
        let mut v = A::mods();
        for m in B::mods() {
            if !v.contains(&m) {
                v.push(m);
            }
        }
        v
    }
    const HAS_DOMAIN: bool = A::HAS_DOMAIN || B::HAS_DOMAIN;
    fn mod_ok(e: &Self::E, m: &A::M) -> bool {
        A::mod_ok(&e.0, m) && B::mod_ok(&e.1, m)
    }
    fn apply(e: &mut Self::E, m: &A::M) {
        A::apply(&mut e.0, m);
        B::apply(&mut e.1, m);
    }
    fn apply_at(e: &mut Self::E, m: &A::M, k: usize) {
        A::apply_at(&mut e.0, m, k);
        B::apply_at(&mut e.1, m, k);
    }
    fn fold(xs: &[Self::E]) -> Self::Obs {
        let (a, b) = unzip(xs);
        (A::fold(&a), B::fold(&b))
    }
    fn observe(t: &Self::T) -> Self::Obs {
        (A::observe(&t.0), B::observe(&t.1))
    }
    fn obs_len(o: &Self::Obs) -> Option<usize> {
        A::obs_len(&o.0).or_else(|| B::obs_len(&o.1))
    }
    fn accept(got: &Self::Obs, xs: &[Self::E]) -> bool {
        let (a, b) = unzip(xs);
        A::accept(&got.0, &a) && B::accept(&got.1, &b)
    }
    fn preds(n: usize) -> Vec<Pred> {
        let mut v: Vec<Pred> = A::preds(n).into_iter().map(|p| Pred::L(Box::new(p))).collect();
        v.extend(B::preds(n).into_iter().map(|p| Pred::R(Box::new(p))));
        v
    }
    fn pred_ok_at(p: &Pred, model: &[Self::E], pos: usize, fwd: bool) -> bool {
        match p {
            Pred::L(q) => A::pred_ok_at(q, &unzip(model).0, pos, fwd),
            Pred::R(q) => B::pred_ok_at(q, &unzip(model).1, pos, fwd),
            _ => unreachable!(),
        }
    }
    fn holds(p: &Pred, o: &Self::Obs) -> bool {
        match p {
            Pred::L(q) => A::holds(q, &o.0),
            Pred::R(q) => B::holds(q, &o.1),
            _ => unreachable!(),
        }
    }
    /// only the part the predicate looks at is folded
    fn holds_on(p: &Pred, model: &[Self::E], l: usize, r: usize) -> bool {
        match p {
            Pred::L(q) => {
                let a: Vec<A::E> = model[l..=r].iter().map(|e| e.0.clone()).collect();
                A::holds_on(q, &a, 0, r - l)
            }
            Pred::R(q) => {
                let b: Vec<B::E> = model[l..=r].iter().map(|e| e.1.clone()).collect();
                B::holds_on(q, &b, 0, r - l)
            }
            _ => unreachable!(),
        }
    }
    fn encode(t: &Self::T, out: &mut Vec<u8>) {
        A::encode(&t.0, out);
        B::encode(&t.1, out);
    }
    fn encode_elem(e: &Self::E, out: &mut Vec<u8>) {
        A::encode_elem(&e.0, out);
        B::encode_elem(&e.1, out);
    }
}
