//! Part 5 of a main pass: operand PLACEMENT.
//!
//! Where a bitset lives is not something a caller controls, so the address of an operand is part of the
//! case: code that works on wider lanes (`align_to`, SIMD loads) splits a word array at a point that depends
//! on the ADDRESS of the array, and two operands whose addresses differ modulo the lane width are split at
//! different words.  Everywhere else the engine keeps every bitset it creates at a 64-byte aligned address
//! (`A64`), in the exploration and in a replay alike; here the operands are put, on purpose, at every
//! combination of addresses modulo 64:
//!
//! * `Slice`: elements i and j of a `[Bitset<N>; 16]` (taken through `split_at_mut`, as the rows of a
//!   matrix are), the array starting at a 64-byte boundary;
//! * `Padded`: the fields `b` of elements i and j of a `[#[repr(C)] struct { pad: u64, b: Bitset<N> }; 16]`
//!   starting at a 64-byte boundary.  One of the two element sizes is an odd number of words, and in that
//!   container the pairs (i, i+d), (i+d, i) for i < 8, 1 <= d <= 8 reach all 8 x 8 combinations of the two
//!   addresses modulo 64 (neighbours, one apart, ..., the same class); the other container contributes
//!   d = 1, 2;
//! * `Vec`: elements (0,1), (1,0), (0,2), (2,0) of an ordinary `Vec<Bitset<N>>` of three, and `Boxes`: two
//!   `Box<Bitset<N>>` - wherever the allocator puts them (their addresses modulo 16 are recorded in the
//!   replay and must be met again; they come last, so a defect that depends on the address classes is
//!   reported from a container whose placement the engine owns).
//!
//! In every layout, for all ordered pairs of the placement patterns (empty, full, two patterns whose words all
//! differ, first word only, last word only, stripes): `&`, `|`, `^` on references, `&=`, `|=`, `^=`, `clone_from`
//! and `==` / `!=`, operands written in place and read back through `test`; for the layouts (i, i+1): every
//! observer (`oracle`), `clone`, and the point operations at every position of the alphabet on ONE placed operand;
//! after a layout, every other element of the container must still hold the pattern it was given.

use super::*;

/// Elements of the two aligned containers.
const SHELF: usize = 16;

pub(super) const PLACED_OPS: [&str; 8] = ["and", "or", "xor", "and_assign", "or_assign", "xor_assign", "clone_from", "eq"];
/// `stall::detail` codes beyond the operators
const OP_OBSERVE: usize = 8;
const OP_BYSTANDERS: usize = 9;

#[repr(C)]
struct Padded<const N: usize> {
    pad: u64,
    b: Bitset<N>,
}

#[derive(Clone, Copy, Debug, PartialEq, Eq, Serialize, Deserialize)]
pub(crate) enum Layout {
    Slice { i: usize, j: usize },
    Padded { i: usize, j: usize },
    Vec { i: usize, j: usize },
    Boxes,
}

impl Layout {
    /// compact (part of a signature)
    fn tag(self) -> String {
        match self {
            Layout::Slice { i, j } => format!("slice[{i},{j}]"),
            Layout::Padded { i, j } => format!("padded[{i},{j}]"),
            Layout::Vec { i, j } => format!("vec[{i},{j}]"),
            Layout::Boxes => "boxes".into(),
        }
    }

    fn text(self, n: usize) -> String {
        match self {
            Layout::Slice { i, j } => format!("a = element {i} and b = element {j} of a [Bitset<{n}>; {SHELF}] that starts at a 64-byte boundary"),
            Layout::Padded { i, j } => {
                format!("a = the field b of element {i} and b = the field b of element {j} of a [#[repr(C)] struct {{ pad: u64, b: Bitset<{n}> }}; {SHELF}] that starts at a 64-byte boundary")
            }
            Layout::Vec { i, j } => format!("a = element {i} and b = element {j} of a Vec<Bitset<{n}>> of three"),
            Layout::Boxes => format!("a and b in two Box<Bitset<{n}>>"),
        }
    }

    /// the engine owns the placement (the container starts at a 64-byte boundary)
    fn aligned(self) -> bool {
        matches!(self, Layout::Slice { .. } | Layout::Padded { .. })
    }

    fn indices(self) -> (usize, usize) {
        match self {
            Layout::Slice { i, j } | Layout::Padded { i, j } | Layout::Vec { i, j } => (i, j),
            Layout::Boxes => (0, 1),
        }
    }

    fn valid(self) -> bool {
        let (i, j) = self.indices();
        let len = if self.aligned() { SHELF } else { 3 };
        i != j && i < len && j < len
    }
}

/// The layouts of capacity N, simplest first: per aligned container the pairs (i, i+d), (i+d, i), d ascending
/// (d <= 8 where the element size is an odd number of words - or not a number of words -, d <= 2 otherwise).
fn layouts<const N: usize>() -> Vec<Layout> {
    let far = |element_bytes: usize| if element_bytes % 16 != 0 { 8 } else { 2 };
    let mut v = vec![];
    for padded in [false, true] {
        let reach = far(if padded { std::mem::size_of::<Padded<N>>() } else { std::mem::size_of::<Bitset<N>>() });
        for d in 1..=reach {
            for i in 0..SHELF / 2 {
                for (i, j) in [(i, i + d), (i + d, i)] {
                    v.push(if padded { Layout::Padded { i, j } } else { Layout::Slice { i, j } });
                }
            }
        }
    }
    v.extend([(0, 1), (1, 0), (0, 2), (2, 0)].map(|(i, j)| Layout::Vec { i, j }));
    v.push(Layout::Boxes);
    v
}

/// Word k of a pattern whose words all differ (multiplication by an odd constant is a bijection).
fn ramp(n: usize, mult: u64) -> Vec<u64> {
    (0..n).map(|k| (k as u64 + 1).wrapping_mul(mult)).collect()
}

/// The operands of the placement family, simplest first.  In the two ramps every word differs from every
/// other word of both, so words that are paired off by one show in every operator.
pub(super) fn placement_patterns(n: usize) -> Vec<Vec<u64>> {
    let only = |k: usize| (0..n).map(|w| if w == k { u64::MAX } else { 0 }).collect::<Vec<u64>>();
    let stripes = (0..n).map(|w| if w % 2 == 0 { 0xAAAA_AAAA_AAAA_AAAA } else { 0x5555_5555_5555_5555 }).collect();
    let mut v = vec![vec![0; n], vec![u64::MAX; n], ramp(n, 0x9E37_79B9_7F4A_7C15), ramp(n, 0xC2B2_AE3D_27D4_EB4F)];
    if !is_large(n) {
        v.extend([only(0), only(n - 1), stripes]);
    }
    let mut seen = HashSet::new();
    v.retain(|w| seen.insert(w.clone()));
    v
}

/// What every element of a container holds that is not an operand.
fn bystander_pattern(n: usize) -> Vec<u64> {
    ramp(n, 0xD6E8_FEB8_6659_FD93)
}

/// Where the operands of one layout live.
enum Home<const N: usize> {
    Slice(Box<A64<[Bitset<N>; SHELF]>>),
    Padded(Box<A64<[Padded<N>; SHELF]>>),
    Vec(Vec<Bitset<N>>),
    Boxes(Box<Bitset<N>>, Box<Bitset<N>>),
}

fn two_mut<T>(s: &mut [T], i: usize, j: usize) -> (&mut T, &mut T) {
    if i < j {
        let (l, r) = s.split_at_mut(j);
        (&mut l[i], &mut r[0])
    } else {
        let (l, r) = s.split_at_mut(i);
        (&mut r[0], &mut l[j])
    }
}

impl<const N: usize> Home<N> {
    /// Every element holds the bystander pattern.
    fn new(l: Layout) -> Self {
        let by = bystander_pattern(N);
        match l {
            Layout::Slice { .. } => Home::Slice(Box::new(A64(std::array::from_fn(|_| build::<N>(&by))))),
            Layout::Padded { .. } => Home::Padded(Box::new(A64(std::array::from_fn(|k| Padded { pad: k as u64, b: build::<N>(&by) })))),
            Layout::Vec { .. } => Home::Vec((0..3).map(|_| build::<N>(&by)).collect()),
            Layout::Boxes => Home::Boxes(Box::new(build::<N>(&by)), Box::new(build::<N>(&by))),
        }
    }

    /// (a, b)
    fn operands(&mut self, l: Layout) -> (&mut Bitset<N>, &mut Bitset<N>) {
        let (i, j) = l.indices();
        match self {
            Home::Slice(s) => two_mut(&mut s.0[..], i, j),
            Home::Padded(s) => {
                let (x, y) = two_mut(&mut s.0[..], i, j);
                (&mut x.b, &mut y.b)
            }
            Home::Vec(v) => two_mut(&mut v[..], i, j),
            Home::Boxes(a, b) => (&mut **a, &mut **b),
        }
    }

    /// The elements that are not operands, with their indices.
    fn bystanders(&self, l: Layout) -> Vec<(usize, &Bitset<N>)> {
        let (i, j) = l.indices();
        let all: Vec<&Bitset<N>> = match self {
            Home::Slice(s) => s.0.iter().collect(),
            Home::Padded(s) => s.0.iter().map(|p| &p.b).collect(),
            Home::Vec(v) => v.iter().collect(),
            Home::Boxes(..) => vec![],
        };
        all.into_iter().enumerate().filter(|(k, _)| *k != i && *k != j).collect()
    }

    /// The pads of the padded container are what they were set to.
    fn pads_intact(&self) -> bool {
        match self {
            Home::Padded(s) => s.0.iter().enumerate().all(|(k, p)| p.pad == k as u64),
            _ => true,
        }
    }

    /// (address of a, address of b) modulo 64
    fn classes(&mut self, l: Layout) -> (usize, usize) {
        let (a, b) = self.operands(l);
        (a as *const Bitset<N> as usize % 64, b as *const Bitset<N> as usize % 64)
    }
}

fn op_index(name: &str) -> Option<usize> {
    PLACED_OPS.iter().position(|o| *o == name)
}

/// One operator on two placed operands: both written in place, the result and both operands read back through test().
#[inline(never)]
fn placed_case<const N: usize>(home: &mut Home<N>, l: Layout, op: usize, wa: &[u64], wb: &[u64]) -> Result<(), String> {
    let (a, b) = home.operands(l);
    *a = build::<N>(wa);
    *b = build::<N>(wb);
    let head = || format!("{} of a = {} and b = {}", PLACED_OPS[op], hex(wa), hex(wb));
    // what a must hold afterwards, and what the operator's value is (if it has one)
    let (a_after, value): (Vec<u64>, Option<[u64; N]>) = match op {
        0..=2 => {
            let r = A64(match op {
                0 => &*a & &*b,
                1 => &*a | &*b,
                _ => &*a ^ &*b,
            });
            let pc = r.count();
            let got = read_words(&*r);
            if pc != got.iter().map(|x| x.count_ones() as usize).sum::<usize>() {
                return Err(format!("{}: count() of the result = {pc}, but test() finds the set {}", head(), hex(&got)));
            }
            (wa.to_vec(), Some(got))
        }
        3 => {
            *a &= &*b;
            (expected_op::<N>(op, wa, wb).to_vec(), None)
        }
        4 => {
            *a |= &*b;
            (expected_op::<N>(op, wa, wb).to_vec(), None)
        }
        5 => {
            *a ^= &*b;
            (expected_op::<N>(op, wa, wb).to_vec(), None)
        }
        6 => {
            Bitset::clone_from(a, &*b);
            (wb.to_vec(), None)
        }
        _ => {
            let same = wa == wb;
            for (form, got) in [("a == b", *a == *b), ("!(a != b)", !(*a != *b)), ("b == a", *b == *a)] {
                if got != same {
                    return Err(format!("a = {} and b = {} are {}, but {form} is {got}", hex(wa), hex(wb), if same { "equal sets" } else { "different sets" }));
                }
            }
            (wa.to_vec(), None)
        }
    };
    if let Some(got) = value {
        let exp: [u64; N] = expected_op::<N>(op, wa, wb);
        if got != exp {
            return Err(format!("{} gave the set {}, the set operation gives {}", head(), hex(&got), hex(&exp)));
        }
    }
    let (now_a, now_b) = (read_words(a), read_words(b));
    if now_a[..] != a_after[..] {
        return Err(match op {
            3..=5 => format!("{} left a = {}, the set operation gives {}", head(), hex(&now_a), hex(&a_after)),
            6 => format!("after a.clone_from(&b) with a = {} and b = {}, a = {}", hex(wa), hex(wb), hex(&now_a)),
            _ => format!("{} changed its left operand to {}", head(), hex(&now_a)),
        });
    }
    if now_b[..] != *wb {
        return Err(format!("{} changed its right operand to {}", head(), hex(&now_b)));
    }
    Ok(())
}

/// One placed operand: every observer, clone, and every point operation of the alphabet.
#[inline(never)]
fn placed_observe<const N: usize>(home: &mut Home<N>, l: Layout, w: &[u64], pos: &[usize], probe: &[usize]) -> Result<(), String> {
    let (a, b) = home.operands(l);
    *a = build::<N>(w);
    // the neighbour is a bystander here
    let by = bystander_pattern(N);
    *b = build::<N>(&by);
    let m: Vec<bool> = (0..64 * N).map(|i| (w[i / 64] >> (i % 64)) & 1 == 1).collect();
    oracle(a, &m, probe, !is_large(N)).map_err(|e| format!("the bitset a = {}: [{}] {}", hex(w), e.0, e.1))?;
    let c = A64(a.clone());
    if read_words(&*c)[..] != *w || read_words(a)[..] != *w {
        return Err(format!("a.clone() of a = {} reads {}, a itself {}", hex(w), hex(&read_words(&*c)), hex(&read_words(a))));
    }
    let mut acts: Vec<Act> = pos.iter().flat_map(|&p| [Act::Flip(p), Act::Flip(p), Act::Set(p), Act::Remove(p)]).collect();
    acts.push(Act::Clear);
    let mut model = m;
    for act in &acts {
        match *act {
            Act::Set(p) => a.set(p),
            Act::Remove(p) => a.remove(p),
            Act::Flip(p) => a.flip(p),
            _ => a.clear(),
        }
        model_apply(&mut model, act);
        let (got, exp) = (read_words(a), model_words(&model));
        if got[..] != exp[..] {
            return Err(format!("starting from a = {}, after the point operations up to {act:?} a = {}, the set is {}", hex(w), hex(&got), hex(&exp)));
        }
    }
    let got = read_words(b);
    if got[..] != by[..] {
        return Err(format!("observing and changing a = {} changed b, which was {}, to {}", hex(w), hex(&by), hex(&got)));
    }
    Ok(())
}

/// Every element that is not an operand still holds the bystander pattern (and the pads their numbers).
fn bystanders_intact<const N: usize>(home: &Home<N>, l: Layout) -> Result<(), String> {
    let by = bystander_pattern(N);
    for (k, x) in home.bystanders(l) {
        let got = read_words(x);
        if got[..] != by[..] {
            return Err(format!("element {k} of the container, which is not an operand, was {} and is {} after the operators ran on the operands", hex(&by), hex(&got)));
        }
    }
    if !home.pads_intact() {
        return Err("a pad word of the container was changed while the operators ran on the operands".into());
    }
    Ok(())
}

struct LayoutOut {
    evals: u64,
    classes: (usize, usize),
    /// per operator (and OP_OBSERVE, OP_BYSTANDERS): first failing (a, b, message) in enumeration order
    fails: Vec<Option<(usize, usize, String)>>,
}

/// Does the layout (i, i+1) of a container: the single-operand part runs there.
fn observes(l: Layout) -> bool {
    let (i, j) = l.indices();
    j == i + 1
}

/// Everything of one layout, in enumeration order: pairs of patterns x operators, the single-operand part, the bystanders.
fn layout_row<const N: usize>(l: Layout, pats: &[Vec<u64>]) -> LayoutOut {
    let mut home = Home::<N>::new(l);
    let mut out = LayoutOut { evals: 0, classes: home.classes(l), fails: vec![None; OP_BYSTANDERS + 1] };
    let (pos, probe) = (alphabet_positions(N, false), boundary_positions(N));
    for (i, wa) in pats.iter().enumerate() {
        PROGRESS.fetch_add(1, Ordering::Relaxed);
        for (j, wb) in pats.iter().enumerate() {
            for op in 0..PLACED_OPS.len() {
                if out.fails[op].is_some() {
                    continue;
                }
                out.evals += 1;
                stall::detail(((i * pats.len() + j) << 8 | op) as u64);
                out.fails[op] = match catch(|| placed_case::<N>(&mut home, l, op, wa, wb)) {
                    Ok(Ok(())) => None,
                    Ok(Err(m)) => Some((i, j, m)),
                    Err(p) => Some((i, j, format!("{} of a = {} and b = {} panicked: {p}", PLACED_OPS[op], hex(wa), hex(wb)))),
                };
            }
        }
        if observes(l) && out.fails[OP_OBSERVE].is_none() {
            out.evals += 1;
            stall::detail(((i * pats.len() + i) << 8 | OP_OBSERVE) as u64);
            out.fails[OP_OBSERVE] = match catch(|| placed_observe::<N>(&mut home, l, wa, &pos, &probe)) {
                Ok(Ok(())) => None,
                Ok(Err(m)) => Some((i, i, m)),
                Err(p) => Some((i, i, format!("observing or changing the bitset a = {} panicked: {p}", hex(wa)))),
            };
        }
    }
    stall::detail(OP_BYSTANDERS as u64);
    out.fails[OP_BYSTANDERS] = match catch(|| bystanders_intact::<N>(&home, l)) {
        Ok(Ok(())) => None,
        Ok(Err(m)) => Some((0, 0, m)),
        Err(p) => Some((0, 0, format!("reading the elements that are not operands panicked: {p}"))),
    };
    out
}

fn family_name(op: usize) -> String {
    match op {
        OP_OBSERVE => "placed.observe".into(),
        OP_BYSTANDERS => "placed.bystanders".into(),
        _ => format!("placed.{}", PLACED_OPS[op]),
    }
}

fn replay_value(n: usize, l: Layout, op: usize, wa: &[u64], wb: &[u64], classes: (usize, usize)) -> Value {
    let op = match op {
        OP_OBSERVE => "observe",
        OP_BYSTANDERS => "bystanders",
        _ => PLACED_OPS[op],
    };
    json!({"kind": "placed", "n": n, "layout": l, "op": op, "a": words_json(wa), "b": words_json(wb), "addresses_mod_64": [classes.0, classes.1]})
}

/// What a stuck call of a `Pending::Placed` section is, as (family, case, wording, replay).
pub(super) fn stuck_case(n: usize, l: Layout, pats: &[Vec<u64>], detail: u64) -> (String, String, String, Value) {
    let (pair, op) = ((detail >> 8) as usize, (detail & 0xff) as usize % (OP_BYSTANDERS + 1));
    let (wa, wb) = (&pats[pair / pats.len() % pats.len()], &pats[pair % pats.len()]);
    let what = match op {
        OP_OBSERVE => format!("observing and changing a = {}", hex(wa)),
        OP_BYSTANDERS => "reading the elements that are not operands".to_string(),
        _ => format!("{} of a = {} and b = {}", PLACED_OPS[op], hex(wa), hex(wb)),
    };
    // the addresses are not known here: a replay of an allocator-placed layout then does not compare them
    let mut replay = replay_value(n, l, op, wa, wb, (0, 0));
    replay.as_object_mut().unwrap().remove("addresses_mod_64");
    (family_name(op), format!("layout={}:a={}:b={}", l.tag(), hex(wa), hex(wb)), format!("with {}: {what}", l.text(n)), replay)
}

/// The replayed form: the recorded layout is rebuilt, and the recorded case (or, for the bystanders, the
/// whole layout) runs in it.
pub(super) fn placed_plain<const N: usize>(v: &Value) -> Result<(), String> {
    let l: Layout = serde_json::from_value(v["layout"].clone()).unwrap_or_else(|_| bad_replay());
    if !l.valid() {
        bad_replay::<()>();
    }
    let (wa, wb) = (words_of::<N>(&v["a"]), words_of::<N>(&v["b"]));
    let op = match v["op"].as_str() {
        Some("observe") => OP_OBSERVE,
        Some("bystanders") => OP_BYSTANDERS,
        Some(name) => op_index(name).unwrap_or_else(|| bad_replay()),
        None => bad_replay(),
    };
    // where the allocator placed the operands when the case was recorded: met again, or no verdict
    if let (false, Some(rec)) = (l.aligned(), v["addresses_mod_64"].as_array()) {
        let now = Home::<N>::new(l).classes(l);
        let rec: Vec<u64> = rec.iter().filter_map(|x| x.as_u64()).collect();
        if rec.len() != 2 || (rec[0] % 16, rec[1] % 16) != (now.0 as u64 % 16, now.1 as u64 % 16) {
            eprintln!("replay: the allocator places the operands of {} at addresses {now:?} modulo 64, recorded {rec:?} (compared modulo 16): the case cannot be re-established", l.tag());
            std::process::exit(2)
        }
    }
    let with = |m: String| format!("with {}: {m}", l.text(N));
    build_checked::<N>(&wa).map_err(with)?;
    build_checked::<N>(&wb).map_err(with)?;
    let pats = Arc::new(if op == OP_BYSTANDERS { placement_patterns(N) } else { vec![wa.clone(), wb.clone()] });
    let r = stall::section(
        || Pending::Placed { n: N, layout: l, pats: pats.clone() },
        || {
            // pair (a, b) = patterns (0, 1) of the section
            stall::detail((1 << 8 | op) as u64);
            match op {
                OP_BYSTANDERS => layout_row::<N>(l, &pats).fails.swap_remove(op).map_or(Ok(()), |f| Err(f.2)),
                OP_OBSERVE => catch(|| placed_observe::<N>(&mut Home::new(l), l, &wa, &alphabet_positions(N, false), &boundary_positions(N)))
                    .unwrap_or_else(|p| Err(format!("observing or changing the bitset a = {} panicked: {p}", hex(&wa)))),
                _ => catch(|| placed_case::<N>(&mut Home::new(l), l, op, &wa, &wb))
                    .unwrap_or_else(|p| Err(format!("{} of a = {} and b = {} panicked: {p}", PLACED_OPS[op], hex(&wa), hex(&wb)))),
            }
        },
    );
    r.map_err(with)
}

/// Part 5: every layout x every ordered pair of the placement patterns x every operator.
pub(super) fn placed_part<const N: usize>(cx: &mut Ctx, ev: &mut serde_json::Map<String, Value>) {
    let pats = Arc::new(placement_patterns(N));
    for w in pats.iter().chain([&bystander_pattern(N)]) {
        if let Err(m) = build_checked::<N>(w) {
            let replay = json!({"kind": "build", "n": N, "a": words_json(w), "warmup": cx.warm});
            let v = Violation::new(format!("build:N={N}:a={}{}", hex(w), cx.sig_suffix()), describe(N, &cx.warm, &m), replay);
            cx.fams.report(cx.run, "build".into(), v);
            ev.insert("operand_placement".into(), json!({"skipped": "an operand cannot be constructed by set(): reported as family `build`"}));
            return;
        }
    }
    let ls = layouts::<N>();
    let outs: Vec<LayoutOut> =
        ls.par_iter().map(|&l| stall::section(|| Pending::Placed { n: N, layout: l, pats: pats.clone() }, || layout_row::<N>(l, &pats))).collect();
    let evals: u64 = outs.iter().map(|o| o.evals).sum();
    cx.tot.placed_evals += evals;
    cx.tot.placed_layouts += ls.len() as u64;
    let owned: Vec<(usize, usize)> = ls.iter().zip(&outs).filter(|(l, _)| l.aligned()).map(|(_, o)| o.classes).collect();
    let class_pairs: BTreeSet<(usize, usize)> = owned.iter().copied().collect();
    let apart_8_mod_16 = owned.iter().filter(|(a, b)| (a + 16 - b % 16) % 16 == 8).count();
    let elsewhere: Vec<Value> = ls.iter().zip(&outs).filter(|(l, _)| !l.aligned()).map(|(l, o)| json!({"layout": l.tag(), "addresses_mod_16": [o.classes.0 % 16, o.classes.1 % 16]})).collect();
    ev.insert(
        "operand_placement".into(),
        json!({
            "layouts": ls.len(),
            "patterns": pats.len(),
            "ordered_pairs_per_layout": pats.len() * pats.len(),
            "operators": PLACED_OPS,
            "evaluations": evals,
            "size_and_alignment_of_a_bitset_in_bytes": [std::mem::size_of::<Bitset<N>>(), std::mem::align_of::<Bitset<N>>()],
            "distinct_pairs_of_operand_addresses_modulo_64_in_the_aligned_containers": class_pairs.len(),
            "aligned_layouts_with_operands_8_apart_modulo_16": apart_8_mod_16,
            "allocator_placed_layouts_as_observed_in_this_run": elsewhere,
        }),
    );
    let mut failed = false;
    for op in 0..=OP_BYSTANDERS {
        let Some((l, o, (i, j, m))) = ls.iter().zip(&outs).find_map(|(l, o)| o.fails[op].as_ref().map(|f| (*l, o, f))) else { continue };
        failed = true;
        let (wa, wb) = (&pats[*i], &pats[*j]);
        let sig = format!("{}:N={N}:layout={}:a={}:b={}{}", family_name(op), l.tag(), hex(wa), hex(wb), cx.sig_suffix());
        let mut replay = replay_value(N, l, op, wa, wb, o.classes);
        replay["warmup"] = json!(cx.warm);
        // the summary must be what the plain re-execution says
        let summary = placed_plain::<N>(&replay).err().unwrap_or_else(|| format!("with {}: {m}", l.text(N)));
        cx.fams.report(cx.run, family_name(op), Violation::new(sig, describe(N, &cx.warm, &summary), replay));
    }
    // non-vacuity: with word-aligned bitsets of a whole number of words, all 8 x 8 address combinations occur
    let words = std::mem::align_of::<Bitset<N>>() == 8 && std::mem::size_of::<Bitset<N>>() % 8 == 0;
    if !failed && (evals == 0 || (words && (class_pairs.len() != 64 || apart_8_mod_16 == 0))) {
        cx.run.machinery_failure(&format!(
            "N={N}: the placement family reached {} of the 64 combinations of operand addresses modulo 64 ({apart_8_mod_16} layouts 8 apart modulo 16, {evals} evaluations)",
            class_pairs.len()
        ));
    }
    if N == 3 {
        cx.run.sample(json!({"N": N, "placement": ls[0].text(N), "addresses_mod_64": [outs[0].classes.0, outs[0].classes.1], "judged": "all ordered pairs of the placement patterns x the operators"}));
    }
}
