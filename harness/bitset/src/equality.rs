//! Part 4 of a main pass: equality (`==`, `!=`; `Hash` and `PartialOrd` should the type ever implement them) on
//! all ordered pairs of a directed operand family and the reached patterns, against equality of the sets.

use super::*;

/// Offsets inside a word at which the directed operands of the equality pairs have their members.
const EQ_OFFSETS: [usize; 5] = [0, 1, 31, 62, 63];
/// At most this many reached patterns join the directed operands (reported when it applies).
const EQ_REACHED_CAP: usize = 20_000;

/// Words from which the directed operands with members in two, three or four words are formed.
fn marked_words(n: usize) -> Vec<usize> {
    below(n, [0, 1, 2, n / 2, n.saturating_sub(2), n - 1, 63, 64, 65])
}

/// Operands of the equality pairs.  Directed part D_N: for every offset o of `EQ_OFFSETS` the sets
/// {64w+o : w in W} for W = {} (the empty set), W = {w} for EVERY word w, and every W of two, three or four
/// `marked_words`; then the complements of all of these; then the reached patterns that are not among them.
/// Two operands taken from D_N differ, among others, in one bit only, in the same offset of exactly two
/// words (for every pair of words: two one-member sets), of three and of four words, inside sparse and
/// inside dense sets.  Simplest first: the first failing pair in enumeration order is a small one.
/// Returns the operands and how many of them are the directed ones.
fn equality_operands(n: usize, reached: &[Vec<u64>]) -> (Vec<Vec<u64>>, usize) {
    let marked = marked_words(n);
    let mut word_sets: Vec<Vec<usize>> = vec![vec![]];
    word_sets.extend((0..n).map(|w| vec![w]));
    for size in 2..=4usize {
        // subsets of `marked` of that size, in lexicographic order
        let mut pick: Vec<usize> = (0..size).collect();
        while size <= marked.len() {
            word_sets.push(pick.iter().map(|&i| marked[i]).collect());
            let Some(i) = (0..size).rev().find(|&i| pick[i] < marked.len() - size + i) else { break };
            pick[i] += 1;
            for k in i + 1..size {
                pick[k] = pick[k - 1] + 1;
            }
        }
    }
    let mut seen: HashSet<Vec<u64>> = HashSet::new();
    let mut out = vec![];
    for complement in [false, true] {
        for ws in &word_sets {
            for o in EQ_OFFSETS {
                let mut w = vec![0u64; n];
                ws.iter().for_each(|&k| w[k] |= 1 << o);
                if complement {
                    w.iter_mut().for_each(|x| *x = !*x);
                }
                if seen.insert(w.clone()) {
                    out.push(w);
                }
            }
        }
    }
    let directed = out.len();
    for w in reached.iter().take(EQ_REACHED_CAP) {
        if seen.insert(w.clone()) {
            out.push(w.clone());
        }
    }
    (out, directed)
}

/// Does a type implement an optional trait?  Resolved by the compiler through method lookup: the method
/// of the by-value wrapper applies only if the bound holds, otherwise lookup falls through to the
/// by-reference fallback.  (`Bitset` implements neither Hash nor PartialOrd today: the checks below switch
/// themselves on when it does.)
struct Probe<'a, T>(&'a T, &'a T);

trait HashProbe {
    fn hashes(&self) -> Option<(u64, u64)>;
}
trait NoHashProbe {
    fn hashes(&self) -> Option<(u64, u64)>;
}
impl<T: std::hash::Hash> HashProbe for Probe<'_, T> {
    fn hashes(&self) -> Option<(u64, u64)> {
        use std::hash::Hasher;
        let h = |x: &T| {
            let mut s = std::collections::hash_map::DefaultHasher::new();
            x.hash(&mut s);
            s.finish()
        };
        Some((h(self.0), h(self.1)))
    }
}
impl<T> NoHashProbe for &Probe<'_, T> {
    fn hashes(&self) -> Option<(u64, u64)> {
        None
    }
}

type Orders = (Option<std::cmp::Ordering>, Option<std::cmp::Ordering>);
trait OrdProbe {
    /// (partial_cmp(a, b), partial_cmp(b, a))
    fn orders(&self) -> Option<Orders>;
}
trait NoOrdProbe {
    fn orders(&self) -> Option<Orders>;
}
impl<T: PartialOrd> OrdProbe for Probe<'_, T> {
    fn orders(&self) -> Option<Orders> {
        Some((self.0.partial_cmp(self.1), self.1.partial_cmp(self.0)))
    }
}
impl<T> NoOrdProbe for &Probe<'_, T> {
    fn orders(&self) -> Option<Orders> {
        None
    }
}

/// The probes must find what is there and must not find what is not (checked once at start-up).
pub(super) fn probes_work() -> bool {
    struct Plain;
    let (x, y, p) = (5u64, 7u64, Plain);
    let on_u64 = ((&Probe(&x, &y)).hashes().is_some_and(|(a, b)| a != b), (&Probe(&x, &y)).orders() == Some((Some(std::cmp::Ordering::Less), Some(std::cmp::Ordering::Greater))));
    let on_plain = ((&Probe(&p, &p)).hashes().is_none(), (&Probe(&p, &p)).orders().is_none());
    on_u64 == (true, true) && on_plain == (true, true)
}

/// What one pair was compared through (beyond == and !=).
#[derive(Default, Clone, Copy)]
struct EqSeen {
    evals: u64,
    hash: bool,
    order: bool,
}

/// Equality of two bitsets against equality of the sets: `==` and `!=`, on the values and on references,
/// (the other argument order is the pair (b, a)); if the type implements Hash, equal sets hash alike; if it
/// implements PartialOrd, partial_cmp says Equal exactly for equal sets and is antisymmetric.
fn eq_case<const N: usize>(a: &Bitset<N>, wa: &[u64], b: &Bitset<N>, wb: &[u64]) -> Result<EqSeen, String> {
    let same = wa == wb;
    let sets = if same { "equal sets" } else { "different sets" };
    let forms = [("a == b", *a == *b), ("!(a != b)", !(*a != *b)), ("&a == &b", a == b), ("!(&a != &b)", !(a != b))];
    let mut seen = EqSeen { evals: forms.len() as u64, ..Default::default() };
    for (form, got) in forms {
        if got != same {
            return Err(format!("a = {} and b = {} are {sets}, but {form} is {got}", hex(wa), hex(wb)));
        }
    }
    if let Some((ha, hb)) = same.then(|| (&Probe(a, b)).hashes()).flatten() {
        seen.hash = true;
        seen.evals += 1;
        if ha != hb {
            return Err(format!("a = {} and b = {} are equal sets but hash differently ({ha:#x}, {hb:#x})", hex(wa), hex(wb)));
        }
    }
    if let Some((ab, ba)) = (&Probe(a, b)).orders() {
        seen.order = true;
        seen.evals += 2;
        let equal = Some(std::cmp::Ordering::Equal);
        if (ab == equal) != same || (ba == equal) != same || ab != ba.map(|o| o.reverse()) {
            return Err(format!("a = {} and b = {} are {sets}, but a.partial_cmp(b) is {ab:?} and b.partial_cmp(a) is {ba:?}", hex(wa), hex(wb)));
        }
    }
    Ok(seen)
}

/// How two different patterns differ, if they differ in ONE bit offset of at most four words: the words.
fn same_offset_difference(wa: &[u64], wb: &[u64]) -> Option<Vec<usize>> {
    let mut words = vec![];
    let mut offset = None;
    for (k, d) in wa.iter().zip(wb).map(|(x, y)| x ^ y).enumerate().filter(|(_, d)| *d != 0) {
        if d.count_ones() != 1 || *offset.get_or_insert(d.trailing_zeros()) != d.trailing_zeros() || words.len() == 4 {
            return None;
        }
        words.push(k);
    }
    Some(words)
}

/// The replayed form of one pair: both operands built from new() by set() (two objects also for equal sets).
pub(super) fn eq_plain<const N: usize>(wa: &[u64], wb: &[u64]) -> Result<(), String> {
    let (a, b) = (A64(build_checked::<N>(wa)?), A64(build_checked::<N>(wb)?));
    let pats = Arc::new(vec![wa.to_vec(), wb.to_vec()]);
    let r = stall::section(
        || Pending::Equality { n: N, pats, i: 0 },
        || {
            stall::detail(1);
            catch(|| eq_case::<N>(&a, wa, &b, wb))
        },
    );
    match r {
        Ok(r) => r.map(|_| ()),
        Err(p) => Err(format!("comparing a = {} with b = {} panicked: {p}", hex(wa), hex(wb))),
    }
}

#[derive(Default)]
struct EqOut {
    evals: u64,
    seen: EqSeen,
    one_bit: u64,
    /// per pair of words (v, w), v < w: some pair of operands differs exactly in the same offset of v and w
    two_words: HashSet<(usize, usize)>,
    three_words: u64,
    four_words: u64,
    /// first failing (i, j, message) in enumeration order
    fail: Option<(usize, usize, String)>,
}

/// Part 4: `==` and `!=` on ALL ordered pairs of the equality operands (i = j: two objects holding the same set).
pub(super) fn equality_part<const N: usize>(cx: &mut Ctx, ev: &mut serde_json::Map<String, Value>, pats_m: &[Vec<bool>]) {
    let reached: Vec<Vec<u64>> = pats_m.iter().map(|m| model_words(m)).collect();
    let (pats, directed) = equality_operands(N, &reached);
    let pats = Arc::new(pats);
    let k = pats.len();
    for (i, w) in pats.iter().enumerate() {
        if let Err(m) = build_checked::<N>(w) {
            let replay = json!({"kind": "build", "n": N, "a": words_json(w), "warmup": cx.warm});
            let v = Violation::new(format!("build:N={N}:a={}{}", hex(w), cx.sig_suffix()), describe(N, &cx.warm, &m), replay);
            cx.fams.report(cx.run, "build".into(), v);
            ev.insert("equality_pairs".into(), json!({"skipped": format!("operand {i} cannot be constructed by set(): reported as family `build`")}));
            return;
        }
    }
    // rows in contiguous chunks, operands built once per chunk: a Bitset need not be Sync
    let chunk = k.div_ceil(4 * rayon::current_num_threads()).max(1);
    let starts: Vec<usize> = (0..k).step_by(chunk).collect();
    let outs: Vec<EqOut> = starts
        .into_par_iter()
        .map(|lo| {
            let mut out = EqOut::default();
            let bs: Vec<A64<Bitset<N>>> = pats.iter().map(|w| A64(build::<N>(w))).collect();
            for i in lo..(lo + chunk).min(k) {
                PROGRESS.fetch_add(1, Ordering::Relaxed);
                let twin = A64(build::<N>(&pats[i]));
                let row = stall::section(
                    || Pending::Equality { n: N, pats: pats.clone(), i },
                    || {
                        for j in 0..k {
                            stall::detail(j as u64);
                            let b: &Bitset<N> = if i == j { &twin } else { &bs[j] };
                            match catch(|| eq_case::<N>(&bs[i], &pats[i], b, &pats[j])) {
                                Ok(Ok(seen)) => {
                                    out.evals += seen.evals;
                                    out.seen.hash |= seen.hash;
                                    out.seen.order |= seen.order;
                                }
                                Ok(Err(m)) => return Some((j, m)),
                                Err(p) => return Some((j, format!("comparing a = {} with b = {} panicked: {p}", hex(&pats[i]), hex(&pats[j])))),
                            }
                            match same_offset_difference(&pats[i], &pats[j]).as_deref() {
                                Some([_]) => out.one_bit += 1,
                                Some([v, w]) => {
                                    out.two_words.insert((*v, *w));
                                }
                                Some([_, _, _]) => out.three_words += 1,
                                Some([_, _, _, _]) => out.four_words += 1,
                                _ => {}
                            }
                        }
                        None
                    },
                );
                if let Some((j, m)) = row {
                    out.fail = Some((i, j, m));
                    break;
                }
            }
            out
        })
        .collect();
    let mut tot = EqOut::default();
    for o in outs {
        tot.evals += o.evals;
        tot.seen = EqSeen { evals: 0, hash: tot.seen.hash | o.seen.hash, order: tot.seen.order | o.seen.order };
        tot.one_bit += o.one_bit;
        tot.two_words.extend(o.two_words);
        tot.three_words += o.three_words;
        tot.four_words += o.four_words;
        if tot.fail.is_none() {
            tot.fail = o.fail;
        }
    }
    cx.tot.eq_pairs += (k * k) as u64;
    cx.tot.eq_evals += tot.evals;
    ev.insert(
        "equality_pairs".into(),
        json!({
            "operands": k,
            "directed_operands": directed,
            "reached_patterns": reached.len(),
            "reached_cap_applied": reached.len() > EQ_REACHED_CAP,
            "ordered_pairs": k * k,
            "pairs_of_equal_sets_in_two_objects": k,
            "evaluations": tot.evals,
            "pairs_differing_in_one_bit": tot.one_bit,
            "pairs_of_words_with_operands_differing_in_the_same_offset_of_exactly_these_two": tot.two_words.len(),
            "pairs_differing_in_the_same_offset_of_three_words": tot.three_words,
            "pairs_differing_in_the_same_offset_of_four_words": tot.four_words,
            "marked_words": marked_words(N),
            "offsets": EQ_OFFSETS,
            "hash_implemented_and_compared": tot.seen.hash,
            "partial_ord_implemented_and_compared": tot.seen.order,
        }),
    );
    if let Some((i, j, m)) = &tot.fail {
        let (wa, wb) = (&pats[*i], &pats[*j]);
        let sig = format!("equality:N={N}:a={}:b={}{}", hex(wa), hex(wb), cx.sig_suffix());
        let replay = json!({"kind": "eq", "n": N, "a": words_json(wa), "b": words_json(wb), "warmup": cx.warm});
        // the summary must be what the plain re-execution says
        let summary = eq_plain::<N>(wa, wb).err().unwrap_or_else(|| m.clone());
        cx.fams.report(cx.run, "equality".into(), Violation::new(sig, describe(N, &cx.warm, &summary), replay));
        return;
    }
    // non-vacuity: every pair of words is told apart at one offset, one-bit differences, and (where the
    // capacity has them) three and four words
    let word_pairs = N * (N - 1) / 2;
    if tot.one_bit == 0 || tot.two_words.len() != word_pairs || (N >= 3 && tot.three_words == 0) || (N >= 4 && tot.four_words == 0) {
        cx.run.machinery_failure(&format!(
            "N={N}: the equality operands do not differ in one bit / in the same offset of every pair of words ({} of {word_pairs}) / of three ({}) and four ({}) words",
            tot.two_words.len(),
            tot.three_words,
            tot.four_words
        ));
    }
    if N == 2 {
        // {0} and {64}: the first one-member sets of the two words
        let (wa, wb) = (&pats[1], &pats[1 + EQ_OFFSETS.len()]);
        if let Ok(eq) = catch(|| build::<N>(wa) == build::<N>(wb)) {
            cx.run.sample(json!({"N": N, "a": hex(wa), "b": hex(wb), "a == b (observed)": eq}));
        }
    }
}
