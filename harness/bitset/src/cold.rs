//! Cold-start pass: independent objects used from several threads in a process that has not used the
//! library yet.
//!
//! The engine binary is re-invoked (`--cold-child <item> <threads> <stagger>`) as a FRESH PROCESS in which
//! T threads are released together by a spin barrier; thread i then idles for `stagger * i` busy-loop
//! iterations and performs, as its first use of the library, ONE item of a small menu (every observer,
//! constructor and operator family of the public API) on bitsets of its OWN (capacities 1, 2, 3; words
//! derived from i), judged against the Vec<bool> model.  Lazily built process-wide state (a table filled on
//! first use, a once-flag) is the only thing such threads can share.
//!
//! This is an ENUMERATION OF COLD-START CONFIGURATIONS (item x T x stagger), not of interleavings: the
//! overlap of the threads is NOT controlled by a scheduler - a free-running pass.  A miss proves nothing; a
//! hit is a genuine output of the real code (on correct code no thread can ever observe a wrong result, so
//! it can not fire).  The re-execution of a hit starts up to `REPLAY_CHILDREN` fresh processes and
//! reproduces if any of them shows a wrong result; its message does not depend on which one did.

use crate::{model_string, Bitset};
use rayon::prelude::*;
use serde_json::{json, Value};
use std::sync::atomic::{AtomicUsize, Ordering};
use std::sync::Arc;

pub const MENU: [&str; 10] = ["display", "debug", "count", "iter_bits", "test", "from_u64", "new_default_clear", "not", "and_or_xor", "clone_eq"];
pub const THREADS: [usize; 3] = [2, 4, 16];
/// fresh processes per (item, T); repetition r uses stagger r
pub const REPS: u64 = 8;
pub const REPLAY_CHILDREN: u64 = 64;
const CHILD_FLAG: &str = "--cold-child";
/// hidden item of the self-check: the child judges against a deliberately wrong model and must say so
const SELF_CHECK: &str = "self-check-wrong-model";
const EXIT_WRONG: i32 = 3;

fn thread_words(i: usize) -> [u64; 3] {
    let k = i as u64;
    [0x8000_0000_0000_0001 ^ (k << 1) ^ (k << 17), 0xAAAA_AAAA_AAAA_AAAA ^ (k << 33), u64::MAX ^ (k << 48) ^ k]
}

fn model_of(w: &[u64]) -> Vec<bool> {
    (0..64 * w.len()).map(|i| (w[i / 64] >> (i % 64)) & 1 == 1).collect()
}

fn read<const N: usize>(b: &Bitset<N>) -> Vec<bool> {
    (0..64 * N).map(|i| b.test(i)).collect()
}

fn built<const N: usize>(m: &[bool]) -> Bitset<N> {
    let mut b = Bitset::<N>::new();
    for (i, &x) in m.iter().enumerate() {
        if x {
            b.set(i);
        }
    }
    b
}

fn expect<T: PartialEq + std::fmt::Debug>(what: &str, n: usize, got: T, exp: T) -> Result<(), String> {
    if got == exp {
        Ok(())
    } else {
        let (g, e) = (format!("{got:?}"), format!("{exp:?}"));
        Err(format!("{what} of a Bitset<{n}>: got {} expected {}", g.chars().take(200).collect::<String>(), e.chars().take(200).collect::<String>()))
    }
}

fn perform_n<const N: usize>(item: &str, words: &[u64; 3]) -> Result<(), String> {
    let m = model_of(&words[..N]);
    let members: Vec<usize> = (0..64 * N).filter(|&i| m[i]).collect();
    match item {
        "display" => expect("Display", N, format!("{}", built::<N>(&m)), model_string(&m)),
        "debug" => expect("Debug", N, format!("{:?}", built::<N>(&m)), model_string(&m)),
        "count" => expect("count()", N, built::<N>(&m).count(), members.len()),
        "iter_bits" => expect("iter_bits()", N, built::<N>(&m).iter_bits().take(64 * N + 1).collect::<Vec<usize>>(), members),
        "test" => expect("test(i) for every i", N, read(&built::<N>(&m)), m),
        "from_u64" => {
            let mut e = vec![false; 64 * N];
            e[..64].copy_from_slice(&model_of(&words[..1]));
            expect("from_u64(w) read by test(i)", N, read(&Bitset::<N>::from_u64(words[0])), e)
        }
        "new_default_clear" => {
            let e = vec![false; 64 * N];
            expect("new()", N, read(&Bitset::<N>::new()), e.clone())?;
            expect("default()", N, read(&Bitset::<N>::default()), e.clone())?;
            let mut b = built::<N>(&m);
            b.clear();
            expect("clear()", N, read(&b), e)
        }
        "not" => expect("!x", N, read(&!built::<N>(&m)), m.iter().map(|x| !x).collect()),
        "and_or_xor" => {
            let o = model_of(&[words[2], words[0], words[1]][..N]);
            let (a, b) = (built::<N>(&m), built::<N>(&o));
            expect("&", N, read(&(&a & &b)), m.iter().zip(&o).map(|(x, y)| x & y).collect())?;
            expect("|", N, read(&(&a | &b)), m.iter().zip(&o).map(|(x, y)| x | y).collect())?;
            expect("^", N, read(&(&a ^ &b)), m.iter().zip(&o).map(|(x, y)| x ^ y).collect())?;
            let mut c = built::<N>(&m);
            c ^= &b;
            expect("^=", N, read(&c), m.iter().zip(&o).map(|(x, y)| x ^ y).collect())
        }
        "clone_eq" => {
            let a = built::<N>(&m);
            let c = a.clone();
            expect("clone()", N, read(&c), m.clone())?;
            expect("x.clone() == x", N, c == a, true)?;
            let mut d = built::<N>(&m);
            d.flip(64 * N - 1);
            expect("x != x with the last bit flipped", N, d != a, true)
        }
        SELF_CHECK => expect("self-check", N, read(&built::<N>(&m)), m.iter().map(|x| !x).collect()),
        other => {
            eprintln!("cold child: unknown item {other}");
            std::process::exit(2)
        }
    }
}

fn perform(item: &str, words: &[u64; 3]) -> Result<(), String> {
    perform_n::<1>(item, words)?;
    perform_n::<2>(item, words)?;
    perform_n::<3>(item, words)
}

/// If this process is a cold child, run it and exit (0: every thread agreed with the model, 3: some did not).
pub fn child_main_if_asked() {
    let a: Vec<String> = std::env::args().collect();
    if a.get(1).map(String::as_str) != Some(CHILD_FLAG) {
        return;
    }
    let parsed = (|| Some((a.get(2)?.clone(), a.get(3)?.parse::<usize>().ok()?, a.get(4)?.parse::<u64>().ok()?)))();
    let Some((item, t, stagger)) = parsed else {
        eprintln!("cold child: bad arguments");
        std::process::exit(2)
    };
    if t == 0 || t > 64 {
        std::process::exit(2);
    }
    vcore::quiet_panics();
    let ready = Arc::new(AtomicUsize::new(0));
    let handles: Vec<_> = (0..t)
        .map(|i| {
            let (ready, item) = (ready.clone(), item.clone());
            std::thread::spawn(move || {
                let words = thread_words(i);
                ready.fetch_add(1, Ordering::AcqRel);
                let mut spins = 0u64;
                while ready.load(Ordering::Acquire) < t {
                    std::hint::spin_loop();
                    spins += 1;
                    if spins % 4096 == 0 {
                        std::thread::yield_now();
                    }
                }
                for _ in 0..stagger * i as u64 {
                    std::hint::spin_loop();
                }
                match vcore::catch(|| perform(&item, &words)) {
                    Ok(r) => r,
                    Err(p) => Err(format!("panic: {p}")),
                }
            })
        })
        .collect();
    let mut wrong = 0;
    for (i, h) in handles.into_iter().enumerate() {
        match h.join() {
            Ok(Ok(())) => {}
            Ok(Err(m)) => {
                wrong += 1;
                println!("COLD-WRONG thread {i}: {}", m.replace('\0', "\\0"));
            }
            Err(_) => std::process::exit(2),
        }
    }
    std::process::exit(if wrong > 0 { EXIT_WRONG } else { 0 })
}

/// One fresh process. Ok(None): all threads agreed with the model; Ok(Some(line)): a wrong result was observed.
fn child(item: &str, t: usize, stagger: u64) -> Result<Option<String>, String> {
    let exe = std::env::current_exe().map_err(|e| e.to_string())?;
    let o = std::process::Command::new(&exe)
        .args([CHILD_FLAG, item, &t.to_string(), &stagger.to_string()])
        .env_remove("VCORE_CHILD")
        .stdin(std::process::Stdio::null())
        .output()
        .map_err(|e| format!("cannot start {}: {e}", exe.display()))?;
    match o.status.code() {
        Some(0) => Ok(None),
        Some(EXIT_WRONG) => Ok(Some(String::from_utf8_lossy(&o.stdout).lines().find(|l| l.starts_with("COLD-WRONG")).unwrap_or("COLD-WRONG").to_string())),
        c => Err(format!("cold child ({item}, {t} threads, stagger {stagger}) ended with {c:?}: {}", String::from_utf8_lossy(&o.stderr).chars().take(300).collect::<String>())),
    }
}

fn message(item: &str, t: usize) -> String {
    format!(
        "[cold.{item}] fresh process, {t} threads released together, each performing `{item}` on bitsets of its own (capacities 1, 2, 3) as its first use of the library: \
         a thread observed a result that differs from the set model (free-running cold-start pass: the overlap of the threads is not controlled; the wrong result was observed in a fresh child process of the re-execution)"
    )
}

pub struct Hit {
    pub item: &'static str,
    pub signature: String,
    pub summary: String,
    pub replay: Value,
}

pub struct Outcome {
    pub hits: Vec<Hit>,
    pub children: u64,
    pub wrong_children: u64,
}

/// The pass: every menu item x T x REPS fresh processes. Err = machinery failure.
pub fn pass() -> Result<Outcome, String> {
    match child(SELF_CHECK, 2, 0) {
        Ok(Some(_)) => {}
        Ok(None) => return Err("cold-start self-check: a child judging against a wrong model reported no wrong result".into()),
        Err(e) => return Err(e),
    }
    let configs: Vec<(&'static str, usize, u64)> = MENU.iter().flat_map(|&it| THREADS.iter().flat_map(move |&t| (0..REPS).map(move |r| (it, t, r)))).collect();
    let pool = rayon::ThreadPoolBuilder::new().num_threads(4).build().map_err(|e| e.to_string())?;
    let results: Vec<Result<Option<String>, String>> = pool.install(|| configs.par_iter().map(|&(it, t, s)| child(it, t, s)).collect());
    let mut out = Outcome { hits: vec![], children: 1 + configs.len() as u64, wrong_children: 0 };
    for (&(item, t, stagger), r) in configs.iter().zip(results) {
        if let Some(line) = r? {
            out.wrong_children += 1;
            // per item: the first hit in enumeration order (T ascending, stagger ascending)
            if out.hits.iter().all(|h| h.item != item) {
                out.hits.push(Hit {
                    item,
                    signature: format!("cold:{item}"),
                    summary: format!("{} — first observed with T={t}, stagger={stagger}: {line}", message(item, t)),
                    replay: json!({"cold": {"item": item, "threads": t, "stagger": stagger}}),
                });
            }
        }
    }
    Ok(out)
}

/// Re-execution of a recorded hit: up to REPLAY_CHILDREN fresh processes (the recorded stagger first, then
/// the others in turn); Err(message) as soon as one shows a wrong result. The message is the same whichever did.
pub fn confirm(v: &Value) -> Result<(), String> {
    let c = &v["cold"];
    let item = c["item"].as_str().and_then(|s| MENU.iter().find(|m| **m == s).copied());
    let (Some(item), Some(t), Some(stagger)) = (item, c["threads"].as_u64(), c["stagger"].as_u64()) else {
        eprintln!("replay: not a cold-start replay of this engine");
        std::process::exit(2)
    };
    if t == 0 || t > 64 {
        eprintln!("replay: bad thread count");
        std::process::exit(2);
    }
    for k in 0..REPLAY_CHILDREN {
        let s = if k % 2 == 0 { stagger } else { (stagger + k / 2 + 1) % REPS };
        match child(item, t as usize, s) {
            Ok(None) => {}
            Ok(Some(_)) => return Err(message(item, t as usize)),
            Err(e) => {
                eprintln!("replay: {e}");
                std::process::exit(2)
            }
        }
    }
    Ok(())
}

pub fn evidence(o: &Outcome) -> Value {
    json!({
        "menu": MENU,
        "threads": THREADS,
        "fresh_processes_per_item_and_thread_count": REPS,
        "stagger_busy_loop_iterations_per_thread_index": (0..REPS).collect::<Vec<_>>(),
        "child_processes": o.children,
        "child_processes_with_a_wrong_result": o.wrong_children,
        "kind": "free-running: an enumeration of cold-start configurations (item x T x stagger); the overlap of the threads is not controlled by a scheduler, so a miss proves nothing and a hit is a genuine observation",
    })
}
