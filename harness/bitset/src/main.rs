//! C12 — `Bitset<N>` agrees with a set of indices.
//!
//! Form R (reachable-state closure), for every capacity N of `CAPS`:
//!
//! 1. closure BFS over the REAL `Bitset<N>` from `new()`, `default()`, `from_u64(w)` (six words) under
//!    `set(p)`, `remove(p)`, `flip(p)` for every p of the position alphabet of N, `clear()`, `!x`,
//!    clone-and-replace, `target.clone_from(&x)` into a target with different contents that was already
//!    observed, and `touch(M)` (use a bitset of a neighbouring capacity on the same thread, then look at x
//!    again).  The search runs until no new state appears, so the verdict covers histories of any length
//!    over that alphabet.  After EVERY transition the complete observable surface is compared with the
//!    model (`Vec<bool>` of length 64N): `test(i)` for every i, `count()`, `iter_bits()` (exact ascending
//!    list, at most 64N+1 items pulled), `==` / `!=` against a second bitset built from the model by `set`
//!    and against one-bit neighbours, `Display`, `Debug` (for the large capacities `Debug` is compared once
//!    per distinct state reached instead of after every transition: rendering dominates the cost there).
//!    Small capacities (N <= 10) use the boundary alphabet P_N; large ones (N = 64, 65, 130: 4096 bits,
//!    one word more, two 4096-bit blocks and two words) use a reduced alphabet around the word and the
//!    4096-bit block boundaries so that the closure stays small while every observer still covers all 64N bits.
//!    Once for every DISTINCT state reached (of the closure, of the sweep of 2., and after every step of a
//!    replay) the iterator PROTOCOL is judged: every standard way of consuming `iter_bits()` - `size_hint`,
//!    `nth`, `skip`, `step_by`, `take`, `fold`, `for_each`, `reduce`, the searching methods (`find`, `position`,
//!    `all`, `any`, `find_map`), `max_by_key` / `min_by` ..., `last`, `count`, `sum`, `max`, `min`, `collect`
//!    into sets, `partition`, `extend`, `eq` / `cmp`, use after exhaustion, `by_ref` interleavings of nth and
//!    next - on a fresh iterator and on one that has already yielded j items, must observe what the same
//!    generic code observes on the model's ascending `Vec<usize>` (see `iter_protocol`).  The methods that
//!    take a closure come first in every state: a closure of the engine ends an iteration that does not end
//!    (`Fuse`), so "fold never stops" is a verdict found without a clock.
//! 2. a bounded sweep with the FULL position alphabet 0..64N (every index, not only the boundary ones)
//!    to a small stated depth — labelled as bounded, not a closure.
//! 3. the binary operators `& | ^` (on references) and `&= |= ^=` on ALL ordered pairs of the first
//!    K states of the closure in BFS order (K = min(states, cap); the cap is reported).
//! 4. equality: `==` and `!=` (on values and on references; `Hash` and `PartialOrd` consistency should the type
//!    ever implement them) on ALL ordered pairs of the equality operands: a directed family of sparse sets
//!    and their complements whose members sit at one offset of one to four words (every pair of words is
//!    told apart by two one-member sets), plus every reached pattern of the closure (`equality_operands`).
//! 5. operand PLACEMENT (`placed`): where a bitset lives is part of the case.  Everything above keeps every
//!    bitset it creates at a 64-byte aligned address (`A64`), in the exploration and in a replay alike; this
//!    part puts the operands of every binary / assigning operator, of `clone_from` and of `==` (and ONE operand
//!    of every observer and point operation) at every combination of addresses modulo 64: neighbouring and
//!    more distant elements of a `[Bitset<N>; 16]` (through `split_at_mut`), fields behind a `u64` pad in an
//!    array of `#[repr(C)]` structs, elements of a `Vec`, two boxes.  A replay rebuilds the recorded layout.
//!
//! A call that does not return is a violation too: every call into the library runs inside an observed
//! section (`stall`); a thread seen inside the same call of a section 40 times in a row, 250 ms apart, is reported
//! (family `stuck`) with a replay that is observed the same way.  Everything runs a second time in the `dbg`
//! profile (debug assertions, integer overflow checks; `run_dbg_child`), where a panic is a verdict as well.
//!
//! Capacities share code (one generic impl) and may share state on a thread or in the process (a `static`
//! or `thread_local!` inside a generic function is ONE object for all N).  Every pass therefore runs in a
//! thread pool of its own whose threads, as the first thing they do, use a bitset of EVERY OTHER capacity
//! (the warm-up, in a recorded order: ascending in the main pass, descending in a second pass), and a
//! recorded violation is re-executed on a fresh thread that performs the same warm-up first.  On a library
//! without such shared state the warm-up changes nothing.
//!
//! Indices >= 64N are outside the property and are never passed.

mod cold;
mod equality;
mod placed;
mod stall;

use rayon::prelude::*;
use rlib_bitset::Bitset;
use serde::{Deserialize, Serialize};
use equality::{eq_plain, equality_part, probes_work};
use placed::{placed_part, placed_plain, Layout};
use std::cell::Cell;
use std::collections::{BTreeSet, HashSet, VecDeque};
use std::sync::atomic::{AtomicBool, AtomicU64, Ordering};
use std::sync::{Arc, Mutex};
use vcore::*;

/// Bumped on every call into the code under test.  A call that never returns is found by the observer of
/// `stall`; only as the last resort (a stall outside every observed section) does the watchdog turn 120 s
/// without progress into a machinery failure (exit 2) instead of a hung check.
static PROGRESS: AtomicU64 = AtomicU64::new(0);
/// Set while this process only waits for the dbg-profile pass (a process with a watchdog of its own).
static WAITING_FOR_THE_DBG_PASS: AtomicBool = AtomicBool::new(false);

const INIT_WORDS: [u64; 6] = [0, 1, 1 << 63, u64::MAX, 0xAAAA_AAAA_AAAA_AAAA, 0x8000_0000_0000_0001];
const OPS: [&str; 6] = ["and", "or", "xor", "and_assign", "or_assign", "xor_assign"];

/// The capacities of both tiers, ascending.  1, 2, 3: one word, the 63/64 boundary, an inner word; 10: the
/// capacity of the repository's own test; 64 = 4096 bits (a 64 x 64 block), 65 = one word more, 130 = two
/// such blocks and two words.
const CAPS: [usize; 7] = [1, 2, 3, 10, 64, 65, 130];
const BLOCK: usize = 64 * 64;

/// Instantiate a generic function for a run-time capacity (one of `CAPS`).
macro_rules! for_cap {
    ($n:expr, $f:ident ( $($a:expr),* )) => {
        match $n {
            1 => $f::<1>($($a),*),
            2 => $f::<2>($($a),*),
            3 => $f::<3>($($a),*),
            10 => $f::<10>($($a),*),
            64 => $f::<64>($($a),*),
            65 => $f::<65>($($a),*),
            130 => $f::<130>($($a),*),
            other => not_a_capacity(other),
        }
    };
}

fn not_a_capacity<T>(n: usize) -> T {
    eprintln!("machinery: {n} is not one of the capacities {CAPS:?}");
    std::process::exit(2)
}

fn is_large(n: usize) -> bool {
    n >= 64
}

/// A value at a 64-byte aligned address.  Every bitset the engine creates outside the placement family
/// (`placed`) lives in one - states, operands, results of assigning operators, comparison partners -, in the
/// exploration and in a replay alike: what a call does may depend on WHERE its operands are (code that works
/// on wider lanes splits a word array by its address), and a case must meet the same placement when it is
/// re-executed.  The placement family then moves the operands through every combination of addresses modulo 64.
#[repr(C, align(64))]
pub(crate) struct A64<T>(pub T);

impl<T> std::ops::Deref for A64<T> {
    type Target = T;
    fn deref(&self) -> &T {
        &self.0
    }
}

impl<T> std::ops::DerefMut for A64<T> {
    fn deref_mut(&mut self) -> &mut T {
        &mut self.0
    }
}

impl<T: Clone> Clone for A64<T> {
    fn clone(&self) -> Self {
        A64(self.0.clone())
    }
    fn clone_from(&mut self, source: &Self) {
        self.0.clone_from(&source.0)
    }
}

/// Operands of the binary operators in the dbg-profile pass (word-wise operators do no index arithmetic).
const DBG_PAIR_CAP: usize = 400;

/// Operands of the binary operators: the first min(states, cap) reached patterns.
fn pair_cap(n: usize) -> usize {
    if is_large(n) {
        128
    } else {
        1500
    }
}

#[derive(Clone, Debug, Serialize, Deserialize, PartialEq)]
enum Act {
    New,
    Default,
    FromU64(u64),
    Set(usize),
    Remove(usize),
    Flip(usize),
    Clear,
    Not,
    CloneReplace,
    /// `target.clone_from(&x)` into a target with different contents (0: the complement of x, 1: empty)
    /// that has been observed before; then continue with the target
    CloneFromReplace(u8),
    /// use a bitset of capacity M (another capacity) on the same thread; x itself is not touched
    Touch(usize),
}

fn kind_of(a: &Act) -> &'static str {
    match a {
        Act::New => "new",
        Act::Default => "default",
        Act::FromU64(_) => "from_u64",
        Act::Set(_) => "set",
        Act::Remove(_) => "remove",
        Act::Flip(_) => "flip",
        Act::Clear => "clear",
        Act::Not => "not",
        Act::CloneReplace => "clone",
        Act::CloneFromReplace(_) => "clone_from",
        Act::Touch(_) => "touch",
    }
}

const KINDS: [&str; 8] = ["set", "remove", "flip", "clear", "not", "clone", "clone_from", "touch"];

fn below(top: usize, v: impl IntoIterator<Item = usize>) -> Vec<usize> {
    let mut v: Vec<usize> = v.into_iter().filter(|&p| p < top).collect();
    v.sort();
    v.dedup();
    v
}

/// Boundary set P_N of DESIGN §4 C12 plus the three positions around every 4096-bit block boundary:
/// the positions of the one-bit-neighbour inequality checks (the same in both tiers and in a replay).
fn boundary_positions(n: usize) -> Vec<usize> {
    let top = 64 * n;
    let blocks = (1..=top / BLOCK).flat_map(|k| [k * BLOCK - 1, k * BLOCK, k * BLOCK + 1]);
    below(top, [0, 1, 31, 62, 63, 64, 65, 127, 128, top - 2, top - 1].into_iter().chain(blocks))
}

/// Positions of set / remove / flip in the closure.  N <= 10: all of `boundary_positions`.  Large N: the
/// reduced alphabet {0, 63, 64, 4095, 4096, 4097, 64N-1} (quick), plus the later block boundaries (thorough).
fn alphabet_positions(n: usize, thorough: bool) -> Vec<usize> {
    if !is_large(n) {
        return boundary_positions(n);
    }
    let top = 64 * n;
    let blocks = (1..=if thorough { top / BLOCK } else { 1 }).flat_map(|k| [k * BLOCK - 1, k * BLOCK, k * BLOCK + 1]);
    below(top, [0, 63, 64, top - 1].into_iter().chain(blocks))
}

/// The capacities next to n in `CAPS` (one smaller, one larger): the operands of `touch`.
fn neighbours(n: usize) -> Vec<usize> {
    let i = CAPS.iter().position(|&c| c == n).unwrap_or_else(|| not_a_capacity(n));
    let mut v = vec![];
    if i > 0 {
        v.push(CAPS[i - 1]);
    }
    if i + 1 < CAPS.len() {
        v.push(CAPS[i + 1]);
    }
    v
}

fn init_menu() -> Vec<Act> {
    let mut v = vec![Act::New, Act::Default];
    v.extend(INIT_WORDS.iter().map(|&w| Act::FromU64(w)));
    v
}

fn action_menu(pos: &[usize], touch: &[usize]) -> Vec<Act> {
    let mut v = vec![];
    v.extend(pos.iter().map(|&p| Act::Set(p)));
    v.extend(pos.iter().map(|&p| Act::Remove(p)));
    v.extend(pos.iter().map(|&p| Act::Flip(p)));
    v.push(Act::Clear);
    v.push(Act::Not);
    v.push(Act::CloneReplace);
    v.push(Act::CloneFromReplace(0));
    v.push(Act::CloneFromReplace(1));
    v.extend(touch.iter().map(|&m| Act::Touch(m)));
    v
}

// ---------------------------------------------------------------------------------------------
// interference: other capacities on the same thread

static WARMUPS: AtomicU64 = AtomicU64::new(0);
static POOLS: AtomicU64 = AtomicU64::new(0);

/// Use a bitset of capacity M on the calling thread: constructors, point operations, every observer,
/// every operator, clone / clone_from.  Nothing is judged here (capacity M has passes of its own) and a
/// panic is swallowed: the call only gives state shared between capacities the chance to be set up by M.
fn touch_n<const M: usize>() {
    PROGRESS.fetch_add(1, Ordering::Relaxed);
    let top = 64 * M;
    let part = |k: u64| stall::detail(PH_TOUCH | (M as u64) << 8 | k);
    let _ = catch(|| {
        part(0);
        let mut b = Bitset::<M>::from_u64(0x8000_0000_0000_0001);
        b.set(top - 1);
        b.flip(top / 2);
        b.remove(0);
        let c = !b.clone();
        part(1);
        let _ = catch(|| format!("{}", b));
        let _ = catch(|| format!("{:?}", c));
        part(2);
        for x in [&b, &c] {
            let _ = catch(|| (x.count(), x.iter_bits().take(top + 1).count(), x.test(top - 1)));
        }
        part(3);
        let _ = catch(|| (b == c, &b & &c, &b | &c, &b ^ &c));
        part(4);
        let _ = catch(|| {
            let mut d = Bitset::<M>::default();
            d |= &b;
            d &= &c;
            d ^= &b;
            d.clone_from(&c);
            d.clear();
        });
    });
}

/// As one section of `stall` (inside a history: part of the step's section).
fn touch(m: usize) {
    stall::section(|| Pending::Touch { m }, || for_cap!(m, touch_n()))
}

/// What `touch_n` does, by the parts it announces through `stall::detail`.
const TOUCH_PARTS: [&str; 5] = [
    "from_u64, set, flip, remove, clone, !",
    "formatting with {} and {:?}",
    "count(), iter_bits() pulled through next(), test()",
    "==, & | ^",
    "|= &= ^=, clone_from, clear",
];

#[derive(Clone, Copy, PartialEq)]
enum Order {
    Ascending,
    Descending,
}

impl Order {
    fn name(self) -> &'static str {
        match self {
            Order::Ascending => "ascending",
            Order::Descending => "descending",
        }
    }
}

/// Every capacity other than n, in the given order.
fn warmup_list(n: usize, order: Order) -> Vec<usize> {
    let mut v: Vec<usize> = CAPS.iter().copied().filter(|&c| c != n).collect();
    if order == Order::Descending {
        v.reverse();
    }
    v
}

fn warm_up(list: &[usize]) {
    list.iter().for_each(|&m| touch(m));
    WARMUPS.fetch_add(1, Ordering::Relaxed);
}

/// Run `f` in a thread pool of its own; each of its threads performs the warm-up before anything else, so
/// what a thread has done when it judges a call is: the warm-up, then steps of this pass only (calls on
/// the pass's capacity, and `touch` of a neighbouring capacity where a history contains it).
fn in_fresh_pool<R: Send>(warm: Vec<usize>, f: impl FnOnce() -> R + Send) -> R {
    POOLS.fetch_add(1, Ordering::Relaxed);
    let pool = rayon::ThreadPoolBuilder::new().start_handler(move |_| warm_up(&warm)).build().unwrap_or_else(|e| {
        eprintln!("machinery: cannot build a thread pool: {e}");
        std::process::exit(2)
    });
    pool.install(f)
}

// ---------------------------------------------------------------------------------------------
// the reference model: a plain vector of booleans

fn model_init(n: usize, a: &Act) -> Option<Vec<bool>> {
    let mut m = vec![false; 64 * n];
    match a {
        Act::New | Act::Default => {}
        Act::FromU64(w) => {
            for i in 0..64 {
                m[i] = (w >> i) & 1 == 1;
            }
        }
        _ => return None,
    }
    Some(m)
}

fn model_apply(m: &mut [bool], a: &Act) {
    match *a {
        Act::Set(p) => m[p] = true,
        Act::Remove(p) => m[p] = false,
        Act::Flip(p) => m[p] = !m[p],
        Act::Clear => m.iter_mut().for_each(|b| *b = false),
        Act::Not => m.iter_mut().for_each(|b| *b = !*b),
        Act::CloneReplace | Act::CloneFromReplace(_) | Act::Touch(_) => {}
        Act::New | Act::Default | Act::FromU64(_) => unreachable!(),
    }
}

fn model_string(m: &[bool]) -> String {
    m.iter().map(|&b| if b { '1' } else { '0' }).collect()
}

/// Bit i of the set -> bit (i mod 64) of word i div 64 (only a compact notation for patterns).
fn model_words(m: &[bool]) -> Vec<u64> {
    let mut w = vec![0u64; m.len() / 64];
    for (i, &b) in m.iter().enumerate() {
        if b {
            w[i / 64] |= 1u64 << (i % 64);
        }
    }
    w
}

fn hex(w: &[u64]) -> String {
    let parts: Vec<String> = w.iter().map(|x| format!("{x:#x}")).collect();
    format!("[{}]", parts.join(","))
}

/// Model-only BFS with the same constructor and action order as the explorer: the reachable bit
/// patterns in BFS order (used to pick the operands of the binary operators deterministically).
fn model_bfs(n: usize, pos: &[usize]) -> Vec<Vec<bool>> {
    let menu = action_menu(pos, &[]);
    let mut seen: HashSet<Vec<bool>> = HashSet::new();
    let mut order: Vec<Vec<bool>> = vec![];
    let mut queue: VecDeque<Vec<bool>> = VecDeque::new();
    for a in init_menu() {
        let m = model_init(n, &a).unwrap();
        if seen.insert(m.clone()) {
            order.push(m.clone());
            queue.push_back(m);
        }
    }
    while let Some(m) = queue.pop_front() {
        for a in &menu {
            let mut m2 = m.clone();
            model_apply(&mut m2, a);
            if seen.insert(m2.clone()) {
                order.push(m2.clone());
                queue.push_back(m2);
            }
        }
    }
    order
}

// ---------------------------------------------------------------------------------------------
// what a thread is doing inside the library (see `stall`), in a form that a replay can re-execute

#[derive(Clone)]
pub(crate) enum Pending {
    /// a constructor, then the observers
    Init { n: usize, act: Act },
    /// the state with these members; `then`: one action on it, followed by the observers; without an action:
    /// what is judged once per distinct state (Debug of a large capacity, the iterator protocol)
    State { n: usize, words: Vec<u64>, then: Option<Act> },
    /// an operand built from new() by set() and read back through test()
    Build { n: usize, words: Vec<u64> },
    /// row i of the binary operators: the left operand is pattern i; detail = 8 j + operator
    Operators { n: usize, pats: Arc<Vec<Vec<u64>>>, i: usize },
    /// row i of the equality pairs: the left operand is pattern i; detail = j
    Equality { n: usize, pats: Arc<Vec<Vec<u64>>>, i: usize },
    /// a bitset of capacity m is used on the thread (the warm-up of a pass or of a replay)
    Touch { m: usize },
    /// one layout of the placement family; detail = (8 bits: operator) + 256 (index of the ordered pair of patterns)
    Placed { n: usize, layout: Layout, pats: Arc<Vec<Vec<u64>>> },
}

/// A call that does not return, as a finding.
struct Stuck {
    n: usize,
    family: String,
    /// the case, compact (part of the signature)
    case: String,
    /// "<what was called> did not return ..."
    text: String,
    /// the replay value; without a warm-up of its own it gets that of the running pass
    replay: Value,
}

fn words_json(w: &[u64]) -> Vec<String> {
    w.iter().map(|x| format!("{x:#x}")).collect()
}

impl Pending {
    fn stuck(&self, detail: u64) -> Stuck {
        let never = format!("did not return within {}: the call does not terminate", stall::timeout_text());
        match self {
            Pending::Init { n, act } => {
                let (fam, what) = phase_text(detail);
                let a = serde_json::to_string(act).unwrap();
                Stuck {
                    n: *n,
                    family: format!("{}.{fam}", kind_of(act)),
                    case: format!("history=[{a}]"),
                    text: format!("after [{a}]: {what} {never}"),
                    replay: json!({"kind": "closure", "n": n, "alphabet": "boundary", "history": [act]}),
                }
            }
            Pending::State { n, words, then } => {
                let (fam, what) = if detail & PH_PROTOCOL != 0 { protocol_text(detail) } else { phase_text(detail) };
                let (kind, tail, step) = match then {
                    Some(a) => {
                        let a = serde_json::to_string(a).unwrap();
                        (kind_of(then.as_ref().unwrap()), format!(":then={a}"), format!(", then {a}"))
                    }
                    None => ("state", String::new(), String::new()),
                };
                Stuck {
                    n: *n,
                    family: format!("{kind}.{fam}"),
                    case: format!("state={}{tail}", hex(words)),
                    text: format!("in the state {} (rebuilt from new() by set){step}: {what} {never}", hex(words)),
                    replay: json!({"kind": "state", "n": n, "words": words_json(words), "then": then}),
                }
            }
            Pending::Build { n, words } => Stuck {
                n: *n,
                family: "build".into(),
                case: format!("a={}", hex(words)),
                text: format!("building {} from new() by set(i) and reading it back through test() {never}", hex(words)),
                replay: json!({"kind": "build", "n": n, "a": words_json(words)}),
            },
            Pending::Operators { n, pats, i } => {
                let (j, op) = ((detail / 8) as usize % pats.len(), (detail % 8) as usize % OPS.len());
                let (wa, wb) = (&pats[*i], &pats[j]);
                Stuck {
                    n: *n,
                    family: OPS[op].to_string(),
                    case: format!("a={}:b={}", hex(wa), hex(wb)),
                    text: format!("{} of {} and {} {never}", OPS[op], hex(wa), hex(wb)),
                    replay: json!({"kind": "pair", "n": n, "op": OPS[op], "a": words_json(wa), "b": words_json(wb)}),
                }
            }
            Pending::Touch { m } => Stuck {
                n: *m,
                family: "touch".into(),
                case: "first_use_on_a_fresh_thread".into(),
                text: format!("{} {never}", phase_text(detail).1),
                replay: json!({"kind": "touch", "n": m, "warmup": []}),
            },
            Pending::Placed { n, layout, pats } => {
                let (family, case, what, replay) = placed::stuck_case(*n, *layout, pats, detail);
                Stuck { n: *n, family, case, text: format!("{what} {never}"), replay }
            }
            Pending::Equality { n, pats, i } => {
                let (wa, wb) = (&pats[*i], &pats[detail as usize % pats.len()]);
                Stuck {
                    n: *n,
                    family: "equality".into(),
                    case: format!("a={}:b={}", hex(wa), hex(wb)),
                    text: format!("comparing {} with {} {never}", hex(wa), hex(wb)),
                    replay: json!({"kind": "eq", "n": n, "a": words_json(wa), "b": words_json(wb)}),
                }
            }
        }
    }
}

/// (family tag, wording) of an observer phase
fn phase_text(detail: u64) -> (&'static str, String) {
    if detail & PH_TOUCH != 0 {
        let (m, part) = ((detail >> 8) & 0xffff, (detail & 0xff) as usize % TOUCH_PARTS.len());
        return ("call", format!("using a Bitset<{m}> on the same thread ({})", TOUCH_PARTS[part]));
    }
    let (fam, what) = PHASES[(detail as usize).min(PHASES.len() - 1)];
    (fam, what.to_string())
}

// ---------------------------------------------------------------------------------------------
// the oracle: every observer of the real bitset against the model

fn render_diff(what: &str, got: &str, exp: &str) -> String {
    if got.len() != exp.len() {
        return format!("{what} has {} characters, expected {}", got.len(), exp.len());
    }
    let i = got.bytes().zip(exp.bytes()).position(|(a, b)| a != b).unwrap_or(0);
    format!("{what} shows '{}' at index {i}, the set says '{}'", &got[i..i + 1], &exp[i..i + 1])
}

/// Where inside a section a thread is (`stall::detail`): the transition itself, then the observers in the
/// order of `oracle`; with `PH_PROTOCOL` set the word names a case of the iterator protocol (`protocol_code`).
const PH_CALL: u64 = 0;
const PH_TEST: u64 = 1;
const PH_COUNT: u64 = 2;
const PH_ITER: u64 = 3;
const PH_EQ: u64 = 4;
const PH_DISPLAY: u64 = 5;
const PH_DEBUG: u64 = 6;
const PH_PROTOCOL: u64 = 1 << 63;
/// a bitset of another capacity M is being used (`touch_n`): PH_TOUCH | M << 8 | part
const PH_TOUCH: u64 = 1 << 62;
/// (family tag, wording) per phase
const PHASES: [(&str, &str); 7] = [
    ("call", "the call itself"),
    ("test", "test(i) for every i"),
    ("count", "count()"),
    ("iter", "iter_bits() pulled through next()"),
    ("eq", "== / != against a bitset rebuilt by set() and its one-bit neighbours"),
    ("display", "formatting with {}"),
    ("debug", "formatting with {:?}"),
];

/// Err((observer family, message)).  Ok = the Display rendering that was observed (it equals the model string).
fn oracle<const N: usize>(b: &Bitset<N>, m: &[bool], probe: &[usize], with_debug: bool) -> Result<String, (&'static str, String)> {
    let top = 64 * N;
    stall::detail(PH_TEST);
    for i in 0..top {
        let got = b.test(i);
        if got != m[i] {
            return Err(("test", format!("test({i}) = {got}, the set says {}", m[i])));
        }
    }
    let members: Vec<usize> = (0..top).filter(|&i| m[i]).collect();
    stall::detail(PH_COUNT);
    let c = b.count();
    if c != members.len() {
        return Err(("count", format!("count() = {c}, the set has {} members", members.len())));
    }
    stall::detail(PH_ITER);
    let got: Vec<usize> = b.iter_bits().take(top + 1).collect();
    if got.len() > top {
        return Err(("iter", format!("iter_bits() yielded more than {top} items (does not terminate); first items {:?}", &got[..8.min(got.len())])));
    }
    if got != members {
        let i = got.iter().zip(members.iter()).position(|(a, b)| a != b).unwrap_or(got.len().min(members.len()));
        return Err((
            "iter",
            format!(
                "iter_bits() yielded {} items, the set has {}; first difference at position {i}: got {:?}, expected {:?}",
                got.len(),
                members.len(),
                got.get(i),
                members.get(i)
            ),
        ));
    }
    stall::detail(PH_EQ);
    let mut other = A64(Bitset::<N>::new());
    for &i in &members {
        other.set(i);
    }
    if !(*b == *other) || *b != *other || !(*other == *b) {
        return Err(("eq", "the bitset is not == to a bitset built from the same set by set()".into()));
    }
    for &p in probe {
        if m[p] {
            other.remove(p);
        } else {
            other.set(p);
        }
        if *b == *other || !(*b != *other) || *other == *b {
            return Err(("eq", format!("the bitset compares == to a bitset that differs from it exactly in bit {p}")));
        }
        if m[p] {
            other.set(p);
        } else {
            other.remove(p);
        }
    }
    let exp = model_string(m);
    stall::detail(PH_DISPLAY);
    let d = format!("{}", b);
    if d != exp {
        return Err(("display", render_diff("Display", &d, &exp)));
    }
    if with_debug {
        check_debug(b, &exp)?;
    }
    Ok(d)
}

fn check_debug<const N: usize>(b: &Bitset<N>, exp: &str) -> Result<(), (&'static str, String)> {
    stall::detail(PH_DEBUG);
    let dbg = format!("{:?}", b);
    if dbg != exp {
        return Err(("debug", render_diff("Debug", &dbg, exp)));
    }
    Ok(())
}

// ---------------------------------------------------------------------------------------------
// the iterator protocol: every way of consuming iter_bits() against the SAME consumption (the same generic
// code) of the model's ascending list

/// One way of consuming an iterator that has already yielded `pre` items through `next()`.
#[derive(Clone, Copy, Debug)]
enum Use {
    /// nth(k), next(), nth(k), next()
    Nth(usize),
    /// the first three items of by_ref().skip(k), then next()
    Skip(usize),
    /// every item of step_by(s)
    StepBy(usize),
    /// every item of by_ref().take(k), then next()
    Take(usize),
    /// fold to (number of items, order-sensitive digest of the items)
    Fold,
    /// for_each to (number of items, order-sensitive digest of the items)
    ForEach,
    /// reduce to the order-sensitive digest
    Reduce,
    /// the searching methods with predicates around position p
    Search(usize),
    /// max_by_key, min_by_key, max_by, min_by on the offset inside the word
    ExtremesBy,
    Last,
    Count,
    /// sum, max, min
    Aggregates,
    /// collect into a BTreeSet, into a HashSet, partition by parity, extend a non-empty Vec
    Collect,
    /// eq, ne, cmp, partial_cmp, le against the rest of the model's list
    Compare,
    /// next() until None (counted), then next(), next(), nth(0), nth(2), by_ref().count(), last()
    Exhaust,
}

/// Check families of the iterator protocol.  From `iter_fold` to `iter_extremes_by`: methods that take a
/// closure, judged FIRST in every state (a closure can end an iteration that does not end, see `Fuse`);
/// from `iter_last` on: methods without one, which std builds on the former unless they are overridden.
const USES: [&str; 16] = [
    "iter_size_hint",
    "iter_nth",
    "iter_skip",
    "iter_step_by",
    "iter_take",
    "iter_fold",
    "iter_for_each",
    "iter_reduce",
    "iter_search",
    "iter_extremes_by",
    "iter_last",
    "iter_count",
    "iter_aggregates",
    "iter_collect",
    "iter_compare",
    "iter_exhausted",
];
const STEPS: [usize; 5] = [1, 2, 3, 64, 65];

impl Use {
    /// index into `USES`
    fn family(self) -> usize {
        match self {
            Use::Nth(_) => 1,
            Use::Skip(_) => 2,
            Use::StepBy(_) => 3,
            Use::Take(_) => 4,
            Use::Fold => 5,
            Use::ForEach => 6,
            Use::Reduce => 7,
            Use::Search(_) => 8,
            Use::ExtremesBy => 9,
            Use::Last => 10,
            Use::Count => 11,
            Use::Aggregates => 12,
            Use::Collect => 13,
            Use::Compare => 14,
            Use::Exhaust => 15,
        }
    }

    fn parameter(self) -> usize {
        match self {
            Use::Nth(k) | Use::Skip(k) | Use::StepBy(k) | Use::Take(k) | Use::Search(k) => k,
            _ => 0,
        }
    }

    /// inverse of (`family`, `parameter`)
    fn from_code(family: usize, k: usize) -> Option<Use> {
        const PLAIN: [Use; 11] =
            [Use::Fold, Use::ForEach, Use::Reduce, Use::Search(0), Use::ExtremesBy, Use::Last, Use::Count, Use::Aggregates, Use::Collect, Use::Compare, Use::Exhaust];
        Some(match family {
            1 => Use::Nth(k),
            2 => Use::Skip(k),
            3 => Use::StepBy(k),
            4 => Use::Take(k),
            8 => Use::Search(k),
            f => *PLAIN.get(f.checked_sub(5)?)?,
        })
    }

    fn text(self) -> String {
        match self {
            Use::Nth(k) => format!("[nth({k}), next(), nth({k}), next()]"),
            Use::Skip(k) => format!("the first three items of by_ref().skip({k}), then next()"),
            Use::StepBy(s) => format!("the items of step_by({s})"),
            Use::Take(k) => format!("the items of by_ref().take({k}), then next()"),
            Use::Fold => "fold to [number of items, digest of the items in order]".into(),
            Use::ForEach => "for_each to [number of items, digest of the items in order]".into(),
            Use::Reduce => "[reduce to the digest of the items in order]".into(),
            Use::Search(p) => {
                format!("[find(x >= {p}), next(), position(x >= {}), next(), all(x < MAX), next(); any(x > {p}), next(); find_map(word of the first x >= {p} at offset 63)]", p + 64)
            }
            Use::ExtremesBy => "[max_by_key(x % 64), min_by_key(x % 64), max_by(x % 64), min_by(x % 64)]".into(),
            Use::Last => "[last()]".into(),
            Use::Count => "[count()]".into(),
            Use::Aggregates => "[sum(), max(), min()]".into(),
            Use::Collect => "collect::<BTreeSet>, None, collect::<HashSet> sorted, None, partition(even) sizes, None, extend of a Vec holding one item".into(),
            Use::Compare => "[eq, ne, cmp, partial_cmp, le against the rest of the ascending list]".into(),
            Use::Exhaust => "[items until the first None, next(), next(), nth(0), nth(2), by_ref().count(), last()]".into(),
        }
    }
}

/// The `stall::detail` word of one protocol case (family 0: the size_hint walk).
fn protocol_code(pre: usize, family: usize, k: usize) -> u64 {
    PH_PROTOCOL | ((pre as u64 & 0xff_ffff) << 32) | ((k as u64 & 0xff_ffff) << 8) | family as u64
}

/// "iter_bits() after j next() calls: ..." and the family of a `protocol_code`.
fn protocol_text(code: u64) -> (&'static str, String) {
    let (pre, k, family) = ((code >> 32) & 0xff_ffff, ((code >> 8) & 0xff_ffff) as usize, (code & 0xff) as usize);
    match Use::from_code(family, k) {
        Some(u) => (USES[family], format!("iter_bits() after {pre} next() calls: {}", u.text())),
        None => (USES[0], "the walk over iter_bits() with size_hint() before every next() and after nth(k)".into()),
    }
}

const ENDLESS: &str = "the method went on calling its closure";

/// Handed to the closures that the engine passes to Iterator methods: `burn` panics (the caller catches it)
/// once it has been called more often than an iteration over 64N indices can call it.  A method that
/// never stops calling its closure is ended deterministically this way, without a clock.
struct Fuse(Cell<usize>);

impl Fuse {
    fn new(calls: usize) -> Self {
        Fuse(Cell::new(calls))
    }
    fn burn(&self) {
        match self.0.get() {
            0 => panic!("{ENDLESS}"),
            n => self.0.set(n - 1),
        }
    }
}

/// What the consumption observes, in order, written to `out` (a number is written as Some(number)).
/// `mk` makes a fresh iterator; `cap` (more than there are indices) bounds what is collected from an
/// iterator that does not end and how often a closure lets itself be called; `list` is the model's list.
fn consume<I: Iterator<Item = usize>>(mk: impl Fn() -> I, pre: usize, u: Use, cap: usize, list: &[usize], out: &mut Vec<Option<usize>>) {
    out.clear();
    let start = || {
        let mut it = mk();
        for _ in 0..pre {
            it.next();
        }
        it
    };
    let digest = |h: usize, x: usize| h.wrapping_mul(1_000_003).wrapping_add(x + 1);
    let fuse = Fuse::new(4 * cap);
    match u {
        Use::Nth(k) => {
            let mut it = start();
            out.extend([it.nth(k), it.next(), it.nth(k), it.next()])
        }
        Use::Skip(k) => {
            let mut it = start();
            out.extend(it.by_ref().skip(k).take(3).map(Some));
            out.push(it.next());
        }
        Use::StepBy(s) => out.extend(start().step_by(s).take(cap).map(Some)),
        Use::Take(k) => {
            let mut it = start();
            out.extend(it.by_ref().take(k).map(Some));
            out.push(it.next());
        }
        Use::Fold => {
            let (n, h) = start().fold((0usize, 0usize), |(n, h), x| {
                fuse.burn();
                (n + 1, digest(h, x))
            });
            out.extend([Some(n), Some(h)]);
        }
        Use::ForEach => {
            let (mut n, mut h) = (0usize, 0usize);
            start().for_each(|x| {
                fuse.burn();
                n += 1;
                h = digest(h, x);
            });
            out.extend([Some(n), Some(h)]);
        }
        Use::Reduce => out.push(start().reduce(|a, x| {
            fuse.burn();
            digest(a, x)
        })),
        Use::Search(p) => {
            let burn = |b: bool| {
                fuse.burn();
                b
            };
            let mut it = start();
            out.push(it.find(|&x| burn(x >= p)));
            out.push(it.next());
            out.push(it.position(|x| burn(x >= p + 64)));
            out.push(it.next());
            out.push(Some(it.all(|x| burn(x < usize::MAX)) as usize));
            out.push(it.next());
            let mut it = start();
            out.push(Some(it.any(|x| burn(x > p)) as usize));
            out.push(it.next());
            out.push(start().find_map(|x| burn(x >= p && x % 64 == 63).then_some(x / 64)));
        }
        Use::ExtremesBy => {
            let key = |x: usize| {
                fuse.burn();
                x % 64
            };
            out.push(start().max_by_key(|&x| key(x)));
            out.push(start().min_by_key(|&x| key(x)));
            out.push(start().max_by(|&a, &b| key(a).cmp(&(b % 64))));
            out.push(start().min_by(|&a, &b| key(a).cmp(&(b % 64))));
        }
        Use::Last => out.push(start().last()),
        Use::Count => out.push(Some(start().count())),
        Use::Aggregates => out.extend([Some(start().sum::<usize>()), start().max(), start().min()]),
        Use::Collect => {
            out.extend(start().collect::<BTreeSet<usize>>().into_iter().map(Some));
            out.push(None);
            let mut v: Vec<usize> = start().collect::<HashSet<usize>>().into_iter().collect();
            v.sort();
            out.extend(v.into_iter().map(Some));
            out.push(None);
            let (even, odd): (Vec<usize>, Vec<usize>) = start().partition(|x| {
                fuse.burn();
                x % 2 == 0
            });
            out.extend([Some(even.len()), Some(odd.len()), None]);
            let mut v = vec![usize::MAX];
            v.extend(start());
            out.extend(v.into_iter().map(Some));
        }
        Use::Compare => {
            let rest = || list[pre.min(list.len())..].iter().copied();
            out.extend([
                Some(start().eq(rest()) as usize),
                Some(start().ne(rest()) as usize),
                Some(start().cmp(rest()) as usize),
                start().partial_cmp(rest()).map(|o| o as usize),
                Some(start().le(rest()) as usize),
            ]);
        }
        Use::Exhaust => {
            let mut it = start();
            let mut n = 0;
            while n < cap && it.next().is_some() {
                n += 1;
            }
            out.extend([Some(n), it.next(), it.next(), it.nth(0), it.nth(2), Some(it.by_ref().count()), it.last()]);
        }
    }
}

/// Positions whose ranks in the ascending list are the interesting starting points and targets of
/// nth / skip: `boundary_positions`, and for N <= 10 also the three positions around every word boundary.
fn protocol_marks(n: usize) -> Vec<usize> {
    let words = if is_large(n) { 0 } else { n };
    below(64 * n, boundary_positions(n).into_iter().chain((1..words).flat_map(|w| [64 * w - 1, 64 * w, 64 * w + 1])))
}

/// Positions around which the searching methods (find, position, any, find_map) look.
fn search_positions(n: usize) -> Vec<usize> {
    below(64 * n, [0, 63, 64, 64 * n - 1])
}

/// (small, ranks): small = {0,1,2,3,L-1,L,L+1}; ranks = small, L-2 and r-1, r, r+1 for the rank r (number of
/// smaller members) of every mark; all <= L+1 (L+1: one more than what is left).
fn protocol_ranks(members: &[usize], marks: &[usize]) -> (Vec<usize>, Vec<usize>) {
    let l = members.len();
    let small = below(l + 2, [0, 1, 2, 3, l.saturating_sub(1), l, l + 1]);
    let at_marks = marks.iter().flat_map(|&p| {
        let r = members.partition_point(|&x| x < p);
        [r.saturating_sub(1), r, r + 1]
    });
    let ranks = below(l + 2, small.iter().copied().chain([l.saturating_sub(2)]).chain(at_marks));
    (small, ranks)
}

/// per entry of `USES`: cases compared
static PROTOCOL_CASES: [AtomicU64; USES.len()] = [const { AtomicU64::new(0) }; USES.len()];
static PROTOCOL_STATES: AtomicU64 = AtomicU64::new(0);
/// nth cases that start behind a yielded member in the middle of a word and end in a later word or behind the end
static NTH_LEAVING_A_STARTED_WORD: AtomicU64 = AtomicU64::new(0);
/// states judged in which some word holds only its top bit / only its bottom bit (a fresh iterator is
/// consumed by every family in every state, so these are consumed from the start of such a word)
static STATES_WITH_A_TOP_ONLY_WORD: AtomicU64 = AtomicU64::new(0);
static STATES_WITH_A_BOTTOM_ONLY_WORD: AtomicU64 = AtomicU64::new(0);

/// What has been judged so far in the process.
#[derive(Clone, Default)]
struct ProtocolTotals {
    states: u64,
    cases: Vec<u64>,
    leaving: u64,
    top_only: u64,
    bottom_only: u64,
}

fn protocol_counts() -> ProtocolTotals {
    ProtocolTotals {
        states: PROTOCOL_STATES.load(Ordering::Relaxed),
        cases: PROTOCOL_CASES.iter().map(|c| c.load(Ordering::Relaxed)).collect(),
        leaving: NTH_LEAVING_A_STARTED_WORD.load(Ordering::Relaxed),
        top_only: STATES_WITH_A_TOP_ONLY_WORD.load(Ordering::Relaxed),
        bottom_only: STATES_WITH_A_BOTTOM_ONLY_WORD.load(Ordering::Relaxed),
    }
}

/// The evidence entry for what was judged since `before`.
fn protocol_evidence(before: &ProtocolTotals) -> Value {
    let now = protocol_counts();
    let was = |i: usize| before.cases.get(i).copied().unwrap_or(0);
    let per: serde_json::Map<String, Value> = USES.iter().enumerate().map(|(i, u)| (u.to_string(), json!(now.cases[i] - was(i)))).collect();
    json!({
        "states_judged": now.states - before.states,
        "cases": now.cases.iter().sum::<u64>() - before.cases.iter().sum::<u64>(),
        "cases_per_family": per,
        "nth_from_behind_a_yielded_member_inside_a_word_to_a_later_word_or_the_end": now.leaving - before.leaving,
        "states_in_which_a_word_holds_only_its_top_bit": now.top_only - before.top_only,
        "states_in_which_a_word_holds_only_its_bottom_bit": now.bottom_only - before.bottom_only,
    })
}

fn short(v: &[Option<usize>]) -> String {
    if v.len() <= 12 {
        format!("{v:?}")
    } else {
        format!("{:?} and {} more", &v[..12], v.len() - 12)
    }
}

/// What one state's protocol compared: cases per entry of `USES`, nth cases leaving a started word.
struct ProtocolCount {
    cases: [u64; USES.len()],
    leaving: u64,
    top_only: bool,
    bottom_only: bool,
}

impl ProtocolCount {
    /// added once per distinct state (by whoever records the state as passed), so the totals are
    /// those of the distinct states whatever the timing of the explorer's threads
    fn record(&self) {
        PROTOCOL_STATES.fetch_add(1, Ordering::Relaxed);
        for (c, n) in PROTOCOL_CASES.iter().zip(self.cases) {
            c.fetch_add(n, Ordering::Relaxed);
        }
        NTH_LEAVING_A_STARTED_WORD.fetch_add(self.leaving, Ordering::Relaxed);
        STATES_WITH_A_TOP_ONLY_WORD.fetch_add(self.top_only as u64, Ordering::Relaxed);
        STATES_WITH_A_BOTTOM_ONLY_WORD.fetch_add(self.bottom_only as u64, Ordering::Relaxed);
    }
}

/// Every standard way of consuming `b.iter_bits()` must see the ascending list of the set: Err((family, message)).
fn iter_protocol<const N: usize>(b: &Bitset<N>, m: &[bool], marks: &[usize]) -> Result<ProtocolCount, (&'static str, String)> {
    let cap = 64 * N + 2;
    let members: Vec<usize> = (0..64 * N).filter(|&i| m[i]).collect();
    let l = members.len();
    let (small, ranks) = protocol_ranks(&members, marks);
    let mut cases = [0u64; USES.len()];

    // size_hint: lower <= what is left <= upper, before every next() of a full walk and after nth(k) on a fresh iterator
    /// Some(message) if size_hint() contradicts the number of items that are left
    fn bad_hint<I: Iterator>(it: &I, left: usize) -> Option<String> {
        let (lo, hi) = it.size_hint();
        (lo > left || hi.is_some_and(|h| h < left)).then(|| format!("size_hint() = ({lo}, {hi:?}) but {left} items are left"))
    }
    PROGRESS.fetch_add(1, Ordering::Relaxed);
    stall::detail(protocol_code(0, 0, 0));
    let walked = catch(|| {
        let mut it = b.iter_bits();
        for j in 0..=l + 1 {
            if let Some(msg) = bad_hint(&it, l.saturating_sub(j)) {
                return Err(format!("iter_bits() of the set with {l} members, after {j} next() calls: {msg}"));
            }
            it.next();
        }
        for &k in &ranks {
            let mut it = b.iter_bits();
            it.nth(k);
            if let Some(msg) = bad_hint(&it, l.saturating_sub(k + 1)) {
                return Err(format!("iter_bits() of the set with {l} members, after nth({k}): {msg}"));
            }
        }
        Ok(())
    });
    cases[0] += (l + 2 + ranks.len()) as u64;
    match walked {
        Ok(Ok(())) => {}
        Ok(Err(msg)) => return Err((USES[0], msg)),
        Err(p) => return Err((USES[0], format!("size_hint() / next() / nth() on iter_bits() panicked: {p}"))),
    }

    let (mut exp, mut got) = (vec![], vec![]);
    let mut judge = |pre: usize, u: Use| -> Result<(), (&'static str, String)> {
        cases[u.family()] += 1;
        consume(|| members.iter().copied(), pre, u, cap, &members, &mut exp);
        let fam = USES[u.family()];
        let head = || format!("iter_bits() of the set with {l} members, after {pre} next() calls: {}", u.text());
        stall::detail(protocol_code(pre, u.family(), u.parameter()));
        match catch(|| consume(|| b.iter_bits(), pre, u, cap, &members, &mut got)) {
            Ok(()) if got == exp => Ok(()),
            Ok(()) => Err((fam, format!("{} gave {}, the ascending list of the set gives {}", head(), short(&got), short(&exp)))),
            Err(p) if p == ENDLESS => Err((fam, format!("{} does not terminate: {ENDLESS} after more than {} calls (there are {} indices)", head(), 4 * cap, 64 * N))),
            Err(p) => Err((fam, format!("{} panicked: {p}", head()))),
        }
    };
    // the methods that take a closure first: if one of them does not terminate it is ended through its
    // closure, and the methods without a closure that std builds on it are never reached in that state
    let searches = search_positions(N);
    PROGRESS.fetch_add(1, Ordering::Relaxed);
    for &j in &small {
        for u in [Use::Fold, Use::ForEach, Use::Reduce, Use::ExtremesBy] {
            judge(j, u)?;
        }
        for &p in &searches {
            judge(j, Use::Search(p))?;
        }
    }
    let mut leaving = 0u64;
    for (a, &j) in ranks.iter().enumerate() {
        PROGRESS.fetch_add(1, Ordering::Relaxed);
        for &t in &ranks[a..] {
            judge(j, Use::Nth(t - j))?;
            if j >= 1 && j <= l && members[j - 1] % 64 != 63 && (t >= l || members[t] / 64 > members[j - 1] / 64) {
                leaving += 1;
            }
        }
    }
    PROGRESS.fetch_add(1, Ordering::Relaxed);
    for &j in &small {
        for &k in &ranks {
            judge(j, Use::Skip(k))?;
        }
    }
    PROGRESS.fetch_add(1, Ordering::Relaxed);
    for &j in &small {
        for s in STEPS {
            judge(j, Use::StepBy(s))?;
        }
        for &k in &small {
            judge(j, Use::Take(k))?;
        }
        for u in [Use::Last, Use::Count, Use::Aggregates, Use::Collect, Use::Compare, Use::Exhaust] {
            judge(j, u)?;
        }
    }
    let words = model_words(m);
    Ok(ProtocolCount { cases, leaving, top_only: words.contains(&(1 << 63)), bottom_only: words.contains(&1) })
}

#[derive(Clone)]
struct St<const N: usize> {
    b: A64<Bitset<N>>,
    m: Vec<bool>,
    /// Display rendering of `b` taken by the oracle right after the last transition (part of the state key)
    disp: String,
}

struct Sys<const N: usize> {
    /// positions used by set / remove / flip
    pos: Vec<usize>,
    /// positions of the one-bit-neighbour inequality checks (always `boundary_positions`)
    probe: Vec<usize>,
    /// capacities used by `touch`
    touch: Vec<usize>,
    /// positions whose ranks the iterator protocol starts from and aims at (always `protocol_marks`)
    marks: Vec<usize>,
    /// full keys of the states whose per-state judgement has PASSED: the explorer asks once per chunk of
    /// the frontier that discovers a state; a state that fails is judged again every time (so the first
    /// finding in enumeration order does not depend on timing)
    passed: Mutex<HashSet<Vec<u8>>>,
}

/// Debug is compared after every transition for N <= 10.  For the large capacities (where rendering 64N
/// characters dominates the cost) Display is compared after every transition and Debug once for every
/// distinct state reached (and after every step of a replay).
fn debug_every_transition(n: usize) -> bool {
    !is_large(n)
}

impl<const N: usize> Sys<N> {
    fn closure(thorough: bool) -> Self {
        Sys { pos: alphabet_positions(N, thorough), probe: boundary_positions(N), touch: neighbours(N), marks: protocol_marks(N), passed: Mutex::default() }
    }
    fn full() -> Self {
        Sys { pos: (0..64 * N).collect(), probe: boundary_positions(N), touch: neighbours(N), marks: protocol_marks(N), passed: Mutex::default() }
    }
    /// a recorded history names its own actions: no menu is needed
    fn replay() -> Self {
        Sys { pos: vec![], probe: boundary_positions(N), touch: vec![], marks: protocol_marks(N), passed: Mutex::default() }
    }
}

fn tag(kind: &str, e: (&'static str, String)) -> String {
    format!("[{kind}.{}] {}", e.0, e.1)
}

impl<const N: usize> System for Sys<N> {
    type State = St<N>;
    type Action = Act;

    fn inits(&self) -> Vec<Act> {
        init_menu()
    }

    fn init(&self, a: &Act) -> Result<St<N>, String> {
        PROGRESS.fetch_add(1, Ordering::Relaxed);
        let m = model_init(N, a).ok_or_else(|| "not a constructor".to_string())?;
        stall::section(
            || Pending::Init { n: N, act: a.clone() },
            || {
                let b = A64(match a {
                    Act::New => Bitset::<N>::new(),
                    Act::Default => <Bitset<N> as Default>::default(),
                    Act::FromU64(w) => Bitset::<N>::from_u64(*w),
                    _ => unreachable!(),
                });
                let disp = oracle(&b, &m, &self.probe, debug_every_transition(N)).map_err(|e| tag(kind_of(a), e))?;
                Ok(St { b, m, disp })
            },
        )
    }

    fn actions(&self, _s: &St<N>) -> Vec<Act> {
        action_menu(&self.pos, &self.touch)
    }

    fn step(&self, s: &mut St<N>, a: &Act) -> Result<u64, String> {
        PROGRESS.fetch_add(1, Ordering::Relaxed);
        let words = model_words(&s.m);
        stall::section(|| Pending::State { n: N, words, then: Some(a.clone()) }, || self.step_inside(s, a))
    }

    fn invariant(&self, s: &St<N>) -> Result<(), String> {
        PROGRESS.fetch_add(1, Ordering::Relaxed);
        let key = self.canon(s);
        if self.passed.lock().unwrap().contains(&key) {
            return Ok(());
        }
        let count = stall::section(|| Pending::State { n: N, words: model_words(&s.m), then: None }, || self.judge_state(s))?;
        if self.passed.lock().unwrap().insert(key) {
            count.record();
        }
        Ok(())
    }

    fn canon(&self, s: &St<N>) -> Vec<u8> {
        let mut k: Vec<u8> = s.m.iter().map(|&b| b as u8).collect();
        k.push(b'|');
        k.extend(s.disp.bytes());
        k
    }

    fn kind(&self, a: &Act) -> &'static str {
        kind_of(a)
    }
}

impl<const N: usize> Sys<N> {
    /// One transition on the real bitset and on the model, then the observers (one section of `stall`).
    fn step_inside(&self, s: &mut St<N>, a: &Act) -> Result<u64, String> {
        let top = 64 * N;
        stall::detail(PH_CALL);
        match *a {
            Act::New | Act::Default | Act::FromU64(_) => {
                eprintln!("machinery: constructor inside a history");
                std::process::exit(2)
            }
            Act::Set(p) | Act::Remove(p) | Act::Flip(p) if p >= top => {
                eprintln!("machinery: index {p} is outside 0..{top} (outside the property)");
                std::process::exit(2)
            }
            Act::Set(p) => s.b.set(p),
            Act::Remove(p) => s.b.remove(p),
            Act::Flip(p) => s.b.flip(p),
            Act::Clear => s.b.clear(),
            Act::Not => {
                let x = Bitset::clone(&s.b);
                *s.b = !x;
            }
            Act::CloneReplace => {
                let c = A64(Bitset::clone(&s.b));
                if !(*c == *s.b) || *c != *s.b {
                    return Err("[clone.eq] a clone is not == to its original".into());
                }
                // x has not been touched since `disp` was taken
                let d = format!("{}", *c);
                if d != s.disp {
                    return Err(format!("[clone.display] {}", render_diff("the clone's Display", &d, &s.disp)));
                }
                s.b = c;
            }
            Act::CloneFromReplace(kind) => {
                let mut t = A64(match kind {
                    0 => !Bitset::clone(&s.b),
                    _ => Bitset::<N>::new(),
                });
                // the target has been observed (counted, rendered) before it is overwritten
                let held = t.count();
                let _ = format!("{}", *t);
                Bitset::clone_from(&mut t, &s.b);
                if !(*t == *s.b) || *t != *s.b {
                    return Err(format!("[clone_from.eq] after target.clone_from(&x) the target (it held {held} members) is not == to x"));
                }
                let d = format!("{}", *t);
                if d != s.disp {
                    return Err(format!("[clone_from.display] {}", render_diff("Display of the target of clone_from", &d, &s.disp)));
                }
                s.b = t;
            }
            Act::Touch(m) => {
                if m == N || !CAPS.contains(&m) {
                    eprintln!("machinery: touch({m}) inside a history of capacity {N}");
                    std::process::exit(2)
                }
                touch(m)
            }
        }
        model_apply(&mut s.m, a);
        s.disp = oracle(&s.b, &s.m, &self.probe, debug_every_transition(N)).map_err(|e| tag(kind_of(a), e))?;
        Ok(fnv(s.disp.as_bytes()))
    }

    /// What is judged once per distinct state (and after every step of a replay): Debug for the large
    /// capacities, and the iterator protocol.  Both only read the bitset, and a state is its complete contents.
    fn judge_state(&self, s: &St<N>) -> Result<ProtocolCount, String> {
        if !debug_every_transition(N) {
            match catch(|| check_debug(&s.b, &s.disp)) {
                Ok(r) => r.map_err(|e| tag("state", e))?,
                Err(p) => return Err(format!("[state.debug] formatting with {{:?}} panicked: {p}")),
            }
        }
        iter_protocol(&s.b, &s.m, &self.marks).map_err(|e| tag("state", e))
    }
}

// ---------------------------------------------------------------------------------------------
// binary operators on pairs of reached bit patterns

/// `new()`, then `set(i)` for every member in ascending order.
fn build<const N: usize>(w: &[u64]) -> Bitset<N> {
    let mut b = Bitset::<N>::new();
    for (k, &word) in w.iter().enumerate().take(N) {
        let mut rest = word;
        while rest != 0 {
            b.set(64 * k + rest.trailing_zeros() as usize);
            rest &= rest - 1;
        }
    }
    b
}

/// Membership of every index, read through `test`, packed into words.
fn read_words<const N: usize>(b: &Bitset<N>) -> [u64; N] {
    let mut w = [0u64; N];
    for i in 0..64 * N {
        if b.test(i) {
            w[i / 64] |= 1u64 << (i % 64);
        }
    }
    w
}

fn expected_op<const N: usize>(op: usize, wa: &[u64], wb: &[u64]) -> [u64; N] {
    std::array::from_fn(|k| match op % 3 {
        0 => wa[k] & wb[k],
        1 => wa[k] | wb[k],
        _ => wa[k] ^ wb[k],
    })
}

/// One operator on one ordered pair.  Ok = membership words of the result.
/// The operands are 64-byte aligned (`A64`) wherever this is called from, and so are the result and the
/// target of an assigning operator here.
fn pair_case<const N: usize>(op: usize, a: &Bitset<N>, wa: &[u64], b: &Bitset<N>, wb: &[u64]) -> Result<[u64; N], String> {
    let exp: [u64; N] = expected_op::<N>(op, wa, wb);
    let res: A64<Bitset<N>> = match op {
        0 => A64(a & b),
        1 => A64(a | b),
        2 => A64(a ^ b),
        3 => {
            let mut c = A64(a.clone());
            *c &= b;
            c
        }
        4 => {
            let mut c = A64(a.clone());
            *c |= b;
            c
        }
        _ => {
            let mut c = A64(a.clone());
            *c ^= b;
            c
        }
    };
    let got = read_words(&*res);
    if got != exp {
        return Err(format!("{} of {} and {} gave the set {}, the set operation gives {}", OPS[op], hex(wa), hex(wb), hex(&got), hex(&exp)));
    }
    let pc: usize = exp.iter().map(|x| x.count_ones() as usize).sum();
    if res.count() != pc {
        return Err(format!("{} of {} and {}: count() of the result = {}, the result set has {pc} members", OPS[op], hex(wa), hex(wb), res.count()));
    }
    if read_words(a)[..] != *wa {
        return Err(format!("{} of {} and {} changed its left operand to {}", OPS[op], hex(wa), hex(wb), hex(&read_words(a))));
    }
    if read_words(b)[..] != *wb {
        return Err(format!("{} of {} and {} changed its right operand to {}", OPS[op], hex(wa), hex(wb), hex(&read_words(b))));
    }
    Ok(got)
}

/// Build the operand for a pattern and read it back: Err if set() on new() does not give the pattern.
fn build_checked<const N: usize>(w: &[u64]) -> Result<Bitset<N>, String> {
    PROGRESS.fetch_add(1, Ordering::Relaxed);
    let built = stall::section(
        || Pending::Build { n: N, words: w.to_vec() },
        || {
            catch(|| {
                let b = build::<N>(w);
                let back = read_words(&b);
                (b, back)
            })
        },
    );
    match built {
        Ok((b, back)) if back[..] == *w => Ok(b),
        Ok((_, back)) => Err(format!("a bitset built from new() by set(i) for every member of {} reads back through test() as {}", hex(w), hex(&back))),
        Err(p) => Err(format!("building {} from new() by set(i) and reading it back through test() panicked: {p}", hex(w))),
    }
}

fn pair_plain<const N: usize>(op: usize, wa: &[u64], wb: &[u64]) -> Result<(), String> {
    build_checked::<N>(wa)?;
    build_checked::<N>(wb)?;
    let pats = Arc::new(vec![wa.to_vec(), wb.to_vec()]);
    let r = stall::section(
        || Pending::Operators { n: N, pats, i: 0 },
        || {
            stall::detail((8 + op) as u64);
            catch(|| {
                let (a, b) = (A64(build::<N>(wa)), A64(build::<N>(wb)));
                if wa == wb {
                    pair_case::<N>(op, &a, wa, &a, wa)
                } else {
                    pair_case::<N>(op, &a, wa, &b, wb)
                }
            })
        },
    );
    match r {
        Ok(Ok(_)) => Ok(()),
        Ok(Err(m)) => Err(m),
        Err(p) => Err(format!("{} of {} and {} panicked: {p}", OPS[op], hex(wa), hex(wb))),
    }
}

struct RowOut {
    evals: u64,
    overlapping: u64,
    fails: Vec<Option<(usize, String)>>,
    results: HashSet<u64>,
}

struct PairReport {
    operands: usize,
    pairs: u64,
    evals: u64,
    overlapping: u64,
    distinct_results: u64,
    /// per operator: first failing (i, j, message) in enumeration order
    fails: Vec<Option<(usize, usize, String)>>,
}

/// Err((pattern index, message)) if an operand cannot be constructed faithfully (then no pair is evaluated).
fn pairs<const N: usize>(pats: &[Vec<u64>]) -> Result<PairReport, (usize, String)> {
    for (i, w) in pats.iter().enumerate() {
        build_checked::<N>(w).map_err(|m| (i, m))?;
    }
    let k = pats.len();
    let shared = Arc::new(pats.to_vec());
    let row = |i: usize| {
        let mut out = RowOut { evals: 0, overlapping: 0, fails: vec![None; 6], results: HashSet::new() };
        // operands are rebuilt per row: a Bitset need not be Sync (it may hold interior caches)
        let bs: Vec<A64<Bitset<N>>> = pats.iter().map(|w| A64(build::<N>(w))).collect();
        for j in 0..k {
            PROGRESS.fetch_add(1, Ordering::Relaxed);
            let (wa, wb) = (&pats[i], &pats[j]);
            let and: [u64; N] = expected_op::<N>(0, wa, wb);
            if and.iter().any(|&x| x != 0) && and[..] != wa[..] && and[..] != wb[..] {
                out.overlapping += 1;
            }
            for op in 0..6 {
                if out.fails[op].is_some() {
                    continue;
                }
                out.evals += 1;
                stall::detail((8 * j + op) as u64);
                match catch(|| pair_case::<N>(op, &bs[i], wa, &bs[j], wb)) {
                    Ok(Ok(w)) => {
                        let bytes: Vec<u8> = w.iter().flat_map(|x| x.to_le_bytes()).collect();
                        out.results.insert(fnv(&bytes) ^ (op as u64 % 3));
                    }
                    Ok(Err(m)) => out.fails[op] = Some((j, m)),
                    Err(p) => out.fails[op] = Some((j, format!("{} of {} and {} panicked: {p}", OPS[op], hex(wa), hex(wb)))),
                }
            }
        }
        out
    };
    let rows: Vec<RowOut> = (0..k).into_par_iter().map(|i| stall::section(|| Pending::Operators { n: N, pats: shared.clone(), i }, || row(i))).collect();
    let mut rep = PairReport { operands: k, pairs: (k * k) as u64, evals: 0, overlapping: 0, distinct_results: 0, fails: vec![None; 6] };
    let mut results: HashSet<u64> = HashSet::new();
    for (i, row) in rows.into_iter().enumerate() {
        rep.evals += row.evals;
        rep.overlapping += row.overlapping;
        results.extend(row.results);
        for op in 0..6 {
            if rep.fails[op].is_none() {
                if let Some((j, m)) = &row.fails[op] {
                    rep.fails[op] = Some((i, *j, m.clone()));
                }
            }
        }
    }
    rep.distinct_results = results.len() as u64;
    Ok(rep)
}

// ---------------------------------------------------------------------------------------------
// per-capacity driver

/// Violations, at most one per check family (the first in enumeration order: N ascending, BFS order).
struct Fams {
    seen: BTreeSet<String>,
    /// the cold-start pass (see `cold`) observed a wrong result in this run
    cold_hit: bool,
    /// mismatches of the parallel exploration that a single thread does not reproduce, left to the cold-start findings
    routed_to_cold: u64,
    /// extra rounds of the cold-start menu started because of such a mismatch
    cold_escalations: u64,
}

impl Fams {
    fn report(&mut self, run: &mut Run, family: String, v: Violation) {
        if self.seen.insert(family) {
            // a mismatch seen by the parallel workers of the exploration that the plain re-execution (one
            // fresh thread, recorded warm-up) does not show is an effect of threads using the library at
            // the same time; if the cold-start pass has observed such an effect, that finding (which has a
            // re-execution of its own) stands for it. Otherwise it is passed on and `finish` decides.
            if v.replay.get("cold").is_none() && confirm(&v.replay).is_ok() {
                // not reproduced on one thread and the scheduled cold-start pass was quiet (its overlap is
                // free-running, e.g. a loaded machine): repeat the whole cold-start menu a few times before
                // leaving the mismatch to `finish` (exit 2, no verdict)
                let mut round = 0;
                while !self.cold_hit && round < 4 {
                    round += 1;
                    self.cold_escalations += 1;
                    if let Ok(o) = cold::pass() {
                        for h in &o.hits {
                            self.cold_hit = true;
                            if self.seen.insert(format!("cold.{}", h.item)) {
                                run.violation(Violation::new(h.signature.clone(), h.summary.clone(), h.replay.clone()));
                            }
                        }
                    }
                }
                if self.cold_hit {
                    self.routed_to_cold += 1;
                    return;
                }
            }
            run.violation(v);
        }
    }
}

fn family_of(found: &Found) -> String {
    if let (Some(i), Some(j)) = (found.message.find('['), found.message.find(']')) {
        if i < j {
            return found.message[i + 1..j].to_string();
        }
    }
    let last: Option<Act> = found.history.last().and_then(|v| serde_json::from_value(v.clone()).ok());
    format!("{}.panic", last.as_ref().map(kind_of).unwrap_or("unknown"))
}

#[derive(Default)]
struct Totals {
    states: u64,
    transitions: u64,
    prefix_states: u64,
    prefix_transitions: u64,
    sweep_states: u64,
    sweep_transitions: u64,
    pair_evals: u64,
    pairs: u64,
    eq_pairs: u64,
    eq_evals: u64,
    placed_layouts: u64,
    placed_evals: u64,
    all_closed: bool,
}

/// The warm-up of the pass that is running (what a replay of a call that does not return starts with).
static PASS_WARM: Mutex<Vec<usize>> = Mutex::new(Vec::new());

/// What one pass (one capacity, one warm-up order) does.
#[derive(Clone, Copy)]
struct Plan {
    order: Order,
    thorough: bool,
    /// None: no closure part; Some(None): to closure; Some(Some(d)): only histories of at most d actions
    closure: Option<Option<usize>>,
    /// depth of the full-alphabet sweep (0 = none)
    sweep_depth: usize,
    pairs: bool,
    /// at most this many operands of the binary operators
    pair_cap: usize,
    /// the equality pairs (directed operands, and the reached patterns where the closure part ran)
    equality: bool,
    /// the placement family
    placed: bool,
    wall_cap: f64,
}

/// The book-keeping a pass writes to, and the warm-up it runs after (part of every replay value).
struct Ctx<'a> {
    run: &'a mut Run,
    fams: &'a mut Fams,
    tot: &'a mut Totals,
    order: Order,
    warm: Vec<usize>,
}

impl Ctx<'_> {
    /// ":warmup=descending" for the second pass; the main pass keeps the plain signature
    fn sig_suffix(&self) -> &'static str {
        match self.order {
            Order::Ascending => "",
            Order::Descending => ":warmup=descending",
        }
    }

    fn closure_violation(&mut self, n: usize, alphabet: &str, f: &Found) {
        let fam = family_of(f);
        let hist = serde_json::to_string(&f.history).unwrap();
        let sig = format!("closure:{fam}:N={n}:{alphabet}:{hist}{}", self.sig_suffix());
        let summary = describe(n, &self.warm, &format!("after {hist}: {}", f.message));
        let replay = json!({"kind": "closure", "n": n, "alphabet": alphabet, "history": f.history, "warmup": self.warm});
        self.fams.report(self.run, format!("closure:{fam}"), Violation::new(sig, summary, replay));
    }
}

/// The one wording of a finding, used by the exploration and by the plain re-execution.
fn describe(n: usize, warm: &[usize], what: &str) -> String {
    format!("Bitset<{n}>, on a thread that first used bitsets of the capacities {warm:?}, {what}")
}

/// Every history of at most `depth` actions over the FULL position alphabet (every index 0..64N).
fn sweep<const N: usize>(cx: &mut Ctx, ev: &mut serde_json::Map<String, Value>, depth: usize, wall_cap: f64) {
    if depth == 0 {
        return;
    }
    let sysf = Sys::<N>::full();
    let cfgf = ExploreCfg { max_depth: Some(depth), max_states: 5_000_000, wall_cap_s: wall_cap };
    let rf = explore(&sysf, &cfgf);
    cx.tot.sweep_states += rf.states;
    cx.tot.sweep_transitions += rf.transitions;
    let mut j = rf.to_json();
    j["depth_bound"] = json!(depth);
    j["note"] = json!("NOT a closure: every history of at most depth_bound actions with set/remove/flip on EVERY index 0..64N (plus clear, not, clone, clone_from, touch) from every constructor");
    ev.insert("full_alphabet_bounded_sweep".into(), j);
    if let Some(f) = &rf.violation {
        cx.closure_violation(N, "full", f);
    } else if rf.completed_depth < depth && !rf.closed {
        cx.tot.all_closed = false;
        ev.insert("full_alphabet_bounded_sweep_incomplete".into(), json!(rf.cap_hit));
    } else if rf.transitions == 0 || rf.per_kind.get("flip").copied().unwrap_or(0) < (6 * 64 * N) as u64 {
        cx.run.machinery_failure(&format!("N={N}: the full-alphabet sweep did not apply flip at every index from every constructor state"));
    }
}

/// Part 1: the closure over the position alphabet (or, with a depth bound, its prefix).
fn closure_part<const N: usize>(cx: &mut Ctx, ev: &mut serde_json::Map<String, Value>, plan: &Plan, bound: Option<usize>, pats_m: &[Vec<bool>]) {
    let sys = Sys::<N>::closure(plan.thorough);
    let cfg = ExploreCfg { max_depth: bound, max_states: 5_000_000, wall_cap_s: plan.wall_cap };
    let r = explore(&sys, &cfg);
    let mut j = r.to_json();
    if let Some(d) = bound {
        cx.tot.prefix_states += r.states;
        cx.tot.prefix_transitions += r.transitions;
        j["depth_bound"] = json!(d);
        j["note"] = json!("NOT a closure: every history of at most depth_bound actions over the position alphabet");
        ev.insert("closure_prefix".into(), j);
    } else {
        cx.tot.states += r.states;
        cx.tot.transitions += r.transitions;
        cx.tot.all_closed &= r.closed && r.violation.is_none();
        ev.insert("closure".into(), j);
    }
    for h in r.sample_histories.iter().take(if plan.order == Order::Ascending && !is_large(N) { 2 } else { 0 }) {
        cx.run.sample(json!({"N": N, "history_reaching_a_state": h}));
    }
    if let Some(f) = &r.violation {
        cx.closure_violation(N, "boundary", f);
        return;
    }
    if bound.is_some() {
        if r.transitions == 0 || r.per_kind.get("touch").copied().unwrap_or(0) == 0 {
            cx.run.machinery_failure(&format!("N={N}: the bounded closure pass applied nothing"));
        }
        return;
    }
    if !r.closed {
        return;
    }
    let run = &*cx.run;
    if r.states != pats_m.len() as u64 {
        run.machinery_failure(&format!("N={N}: the explorer closed with {} states but the model alone reaches {} patterns", r.states, pats_m.len()));
    }
    if (r.states as usize) < (1usize << sys.pos.len()) {
        run.machinery_failure(&format!("N={N}: fewer states than subsets of the position alphabet"));
    }
    for k in KINDS {
        if r.per_kind.get(k).copied().unwrap_or(0) == 0 {
            run.machinery_failure(&format!("N={N}: action kind {k} was never applied"));
        }
    }
    let words: Vec<Vec<u64>> = pats_m.iter().map(|m| model_words(m)).collect();
    let has = |f: &dyn Fn(&Vec<u64>) -> bool| words.iter().any(|w| f(w));
    if !has(&|w| w.iter().all(|&x| x == 0)) || !has(&|w| w.iter().all(|&x| x == u64::MAX)) {
        run.machinery_failure(&format!("N={N}: the empty or the full set was not reached"));
    }
    for &p in &sys.pos {
        if !has(&|w| (w[p / 64] >> (p % 64)) & 1 == 1) || !has(&|w| (w[p / 64] >> (p % 64)) & 1 == 0) {
            run.machinery_failure(&format!("N={N}: position {p} was not seen both set and clear"));
        }
    }
    if N >= 2 {
        // the iterator has to skip an empty first word and find a member in the last one;
        // members on both sides of the 63/64 boundary
        if !has(&|w| w[0] == 0 && w[N - 1] != 0) || !has(&|w| (w[0] >> 63) & 1 == 1 && w[1] & 1 == 1) {
            run.machinery_failure(&format!("N={N}: no state with an empty first word and a non-empty last word, or none with 63 and 64 both set"));
        }
    }
    if N > 64 {
        // a member whose counterpart one 4096-bit block further is not a member, and the other way round
        let bit = |w: &Vec<u64>, p: usize| (w[p / 64] >> (p % 64)) & 1 == 1;
        if !has(&|w| bit(w, 0) && !bit(w, BLOCK)) || !has(&|w| !bit(w, 0) && bit(w, BLOCK)) {
            run.machinery_failure(&format!("N={N}: no state that tells bit 0 from bit {BLOCK}"));
        }
    }
}

/// Part 3: the binary operators on all ordered pairs of the first K reached patterns.
fn pairs_part<const N: usize>(cx: &mut Ctx, ev: &mut serde_json::Map<String, Value>, pats_m: &[Vec<bool>], cap: usize) {
    let k = pats_m.len().min(cap);
    let pats: Vec<Vec<u64>> = pats_m[..k].iter().map(|m| model_words(m)).collect();
    let words = |w: &[u64]| w.iter().map(|x| format!("{x:#x}")).collect::<Vec<_>>();
    // every word is non-empty in some operand (a word that an operator leaves unwritten shows in the self-pair),
    // and the LAST word holds different non-empty contents in two operands
    let last_words: BTreeSet<u64> = pats.iter().map(|p| p[N - 1]).filter(|&x| x != 0).collect();
    if !(0..N).all(|w| pats.iter().any(|p| p[w] != 0)) || last_words.len() < 2 {
        cx.run.machinery_failure(&format!("N={N}: the operands of the binary operators leave a word empty, or do not vary in the last word"));
    }
    let pr = match pairs::<N>(&pats) {
        Ok(pr) => pr,
        Err((i, m)) => {
            let w = &pats[i];
            ev.insert("binary_operators".into(), json!({"skipped": "operands cannot be constructed by set(): reported as family `build`", "operator_evaluations": 0}));
            let replay = json!({"kind": "build", "n": N, "a": words(w), "warmup": cx.warm});
            let v = Violation::new(format!("build:N={N}:a={}{}", hex(w), cx.sig_suffix()), describe(N, &cx.warm, &m), replay);
            cx.fams.report(cx.run, "build".into(), v);
            return;
        }
    };
    cx.tot.pair_evals += pr.evals;
    cx.tot.pairs += pr.pairs;
    ev.insert(
        "binary_operators".into(),
        json!({
            "reached_patterns": pats_m.len(),
            "operands_used": pr.operands,
            "cap": cap,
            "cap_applied": pats_m.len() > cap,
            "ordered_pairs": pr.pairs,
            "operator_evaluations": pr.evals,
            "pairs_properly_overlapping": pr.overlapping,
            "distinct_non_empty_last_words_of_operands": last_words.len(),
            "distinct_results": pr.distinct_results,
        }),
    );
    if pr.fails.iter().all(|f| f.is_none()) && (pr.overlapping == 0 || pr.distinct_results < 3 * k as u64 / 2) {
        cx.run.machinery_failure(&format!("N={N}: the operand pairs are implausibly uniform (overlapping {}, distinct results {})", pr.overlapping, pr.distinct_results));
    }
    for op in 0..6 {
        if let Some((i, j, m)) = &pr.fails[op] {
            let (wa, wb) = (&pats[*i], &pats[*j]);
            let sig = format!("{}:N={N}:a={}:b={}{}", OPS[op], hex(wa), hex(wb), cx.sig_suffix());
            let replay = json!({"kind": "pair", "n": N, "op": OPS[op], "a": words(wa), "b": words(wb), "warmup": cx.warm});
            // the summary must be what the plain re-execution says
            let summary = pair_plain::<N>(op, wa, wb).err().unwrap_or_else(|| m.clone());
            cx.fams.report(cx.run, OPS[op].to_string(), Violation::new(sig, describe(N, &cx.warm, &summary), replay));
        }
    }
    // one pair written out
    if k >= 2 && !is_large(N) {
        let (i, j) = (k - 1, k / 2);
        if let Ok(Ok(w)) = catch(|| pair_case::<N>(2, &build::<N>(&pats[i]), &pats[i], &build::<N>(&pats[j]), &pats[j])) {
            cx.run.sample(json!({"N": N, "a": hex(&pats[i]), "b": hex(&pats[j]), "a ^ b (observed through test)": hex(&w)}));
        }
    }
}

/// One pass: capacity N after one warm-up order, in a thread pool of its own.
fn run_n<const N: usize>(run: &mut Run, fams: &mut Fams, tot: &mut Totals, plan: Plan) {
    let t0 = std::time::Instant::now();
    let warm = warmup_list(N, plan.order);
    let mut ev = serde_json::Map::new();
    let pos = alphabet_positions(N, plan.thorough);
    ev.insert("bits".into(), json!(64 * N));
    ev.insert("warm_up_order".into(), json!(plan.order.name()));
    ev.insert("warm_up_capacities_in_order".into(), json!(warm));
    ev.insert("positions".into(), json!(pos));
    ev.insert("neighbour_probe_positions".into(), json!(boundary_positions(N)));
    ev.insert("touch_capacities".into(), json!(neighbours(N)));
    ev.insert("iterator_protocol_marks".into(), json!(protocol_marks(N)));
    let before = protocol_counts();
    *PASS_WARM.lock().unwrap() = warm.clone();
    let mut cx = Ctx { run, fams, tot, order: plan.order, warm: warm.clone() };
    in_fresh_pool(warm, || {
        // operand patterns: model BFS order (identical to the explorer's order when the closure held)
        let pats_m = if plan.closure == Some(None) || plan.pairs { model_bfs(N, &pos) } else { vec![] };
        let mut parts = serde_json::Map::new();
        let mut timed = |name: &str, t: std::time::Instant| parts.insert(name.into(), json!((t.elapsed().as_secs_f64() * 1000.0).round() / 1000.0));
        let t = std::time::Instant::now();
        if let Some(bound) = plan.closure {
            closure_part::<N>(&mut cx, &mut ev, &plan, bound, &pats_m);
            timed("closure", t);
        }
        let t = std::time::Instant::now();
        sweep::<N>(&mut cx, &mut ev, plan.sweep_depth, plan.wall_cap);
        timed("sweep", t);
        let t = std::time::Instant::now();
        if plan.pairs {
            pairs_part::<N>(&mut cx, &mut ev, &pats_m, plan.pair_cap);
            timed("binary_operators", t);
        }
        let t = std::time::Instant::now();
        if plan.equality {
            equality_part::<N>(&mut cx, &mut ev, &pats_m);
            timed("equality_pairs", t);
        }
        let t = std::time::Instant::now();
        if plan.placed {
            placed_part::<N>(&mut cx, &mut ev);
            timed("operand_placement", t);
        }
        ev.insert("part_wall_s".into(), Value::Object(parts));
    });
    let proto = protocol_evidence(&before);
    if !run.has_violations() {
        let zero = |k: &str| proto[k] == 0 || proto["cases_per_family"].as_object().is_some_and(|m| m.values().any(|v| *v == 0));
        // every family consumes a fresh iterator in every state: also from the start of a word that holds
        // only its top bit, and of one that holds only its bottom bit
        if zero("states_judged")
            || (N >= 2 && zero("nth_from_behind_a_yielded_member_inside_a_word_to_a_later_word_or_the_end"))
            || zero("states_in_which_a_word_holds_only_its_top_bit")
            || zero("states_in_which_a_word_holds_only_its_bottom_bit")
        {
            run.machinery_failure(&format!("N={N}: the iterator protocol was not exercised in every family: {proto}"));
        }
    }
    ev.insert("iterator_protocol".into(), proto);
    ev.insert("pass_wall_s".into(), json!((t0.elapsed().as_secs_f64() * 1000.0).round() / 1000.0));
    let key = match plan.order {
        Order::Ascending => format!("N={N}"),
        Order::Descending => format!("N={N} after the descending warm-up"),
    };
    run.cov(&key, Value::Object(ev));
}

fn run_cap(n: usize, run: &mut Run, fams: &mut Fams, tot: &mut Totals, plan: Plan) {
    for_cap!(n, run_n(run, fams, tot, plan))
}

// ---------------------------------------------------------------------------------------------
// plain re-execution

fn parse_words(v: &Value) -> Vec<u64> {
    v.as_array()
        .map(|a| a.iter().map(|x| u64::from_str_radix(x.as_str().unwrap_or("").trim_start_matches("0x"), 16).unwrap_or_else(|_| bad_replay())).collect())
        .unwrap_or_else(|| bad_replay())
}

fn bad_replay<T>() -> T {
    eprintln!("replay: malformed replay value");
    std::process::exit(2)
}

/// Words of a replay value, of the capacity's length.
fn words_of<const N: usize>(v: &Value) -> Vec<u64> {
    let w = parse_words(v);
    if w.len() != N {
        bad_replay::<()>();
    }
    w
}

/// A state rebuilt from new() by set(), observed; then (optionally) one action with its observers; then
/// what is judged once per state.  The replay of a call that did not return (see `Pending::State`).
fn confirm_state<const N: usize>(v: &Value) -> Result<(), String> {
    let words = words_of::<N>(&v["words"]);
    let then: Option<Act> = serde_json::from_value(v["then"].clone()).unwrap_or_else(|_| bad_replay());
    let sys = Sys::<N>::replay();
    let b = A64(build_checked::<N>(&words)?);
    let m: Vec<bool> = (0..64 * N).map(|i| (words[i / 64] >> (i % 64)) & 1 == 1).collect();
    let observed = stall::section(|| Pending::State { n: N, words: words.clone(), then: None }, || catch(|| oracle(&b, &m, &sys.probe, true)));
    let disp = match observed {
        Ok(r) => r.map_err(|e| tag("state", e))?,
        Err(p) => return Err(format!("[state.panic] observing the state {} panicked: {p}", hex(&words))),
    };
    let mut st = St { b, m, disp };
    if let Some(a) = &then {
        match catch(|| sys.step(&mut st, a)) {
            Ok(r) => r.map(|_| ())?,
            Err(p) => return Err(format!("[{}.panic] {p}", kind_of(a))),
        }
    }
    sys.invariant(&st)
}

fn confirm_n<const N: usize>(v: &Value) -> Result<(), String> {
    if v["kind"] == "build" {
        return build_checked::<N>(&words_of::<N>(&v["a"])).map(|_| ());
    }
    if v["kind"] == "pair" {
        let op = OPS.iter().position(|o| v["op"] == *o).unwrap_or_else(|| bad_replay());
        return pair_plain::<N>(op, &words_of::<N>(&v["a"]), &words_of::<N>(&v["b"]));
    }
    if v["kind"] == "eq" {
        return eq_plain::<N>(&words_of::<N>(&v["a"]), &words_of::<N>(&v["b"]));
    }
    if v["kind"] == "placed" {
        return placed_plain::<N>(v);
    }
    if v["kind"] == "touch" {
        // nothing is judged but that the calls return
        touch(N);
        return Ok(());
    }
    if v["kind"] == "state" {
        return confirm_state::<N>(v).map_err(|m| format!("in the state {} (rebuilt from new() by set): {m}", v["words"]));
    }
    let hist: Vec<Value> = v["history"].as_array().cloned().unwrap_or_else(|| bad_replay());
    replay_history(&Sys::<N>::replay(), &hist).map_err(|m| format!("after {}: {m}", serde_json::to_string(&hist).unwrap()))
}

/// One recorded case on a FRESH thread that first performs the recorded warm-up (a replay file without
/// one — written before the warm-up existed — gets none): what the thread has done before the case is
/// then the same in the exploration, in `Run::finish` and in a later `--replay` process.  The thread is
/// observed the way the workers of an exploration are (`stall`): a call that does not return within the
/// same timeout is the violation, and the thread is left behind.
fn confirm(v: &Value) -> Result<(), String> {
    if v.get("cold").is_some() {
        return cold::confirm(v);
    }
    let n = v["n"].as_u64().unwrap_or_else(|| bad_replay()) as usize;
    let warm: Vec<usize> = match &v["warmup"] {
        Value::Null => vec![],
        w => w.as_array().unwrap_or_else(|| bad_replay()).iter().map(|x| x.as_u64().unwrap_or_else(|| bad_replay()) as usize).collect(),
    };
    if !CAPS.contains(&n) || warm.iter().any(|m| !CAPS.contains(m) || *m == n) {
        bad_replay::<()>();
    }
    let (v, slot, warm_there) = (v.clone(), stall::Slot::new(true), warm.clone());
    let (their_slot, (tx, rx)) = (slot.clone(), std::sync::mpsc::channel());
    std::thread::spawn(move || {
        stall::install(their_slot);
        warm_up(&warm_there);
        let _ = tx.send(for_cap!(n, confirm_n(&v)));
    });
    let mut watch = stall::Watch::default();
    loop {
        match rx.recv_timeout(stall::TICK) {
            Ok(r) => return r.map_err(|m| describe(n, &warm, &m)),
            Err(std::sync::mpsc::RecvTimeoutError::Timeout) => {
                if watch.observe(&slot) >= stall::TIMEOUT_TICKS {
                    if let Some((p, detail)) = slot.pending() {
                        return Err(describe(n, &warm, &p.stuck(detail).text));
                    }
                }
            }
            Err(std::sync::mpsc::RecvTimeoutError::Disconnected) => {
                eprintln!("replay: the replay thread panicked outside a call into the library");
                std::process::exit(2)
            }
        }
    }
}

/// A worker of the exploration is stuck in a call (see `stall`): the verdict is given from here, because
/// the pass that waits for that worker can not end.  Of the calls found stuck, the one reported is the
/// smallest (capacity, family, case).
fn report_stuck(prop: &str, tier: Tier, stuck: Vec<Stuck>) -> ! {
    let warm = PASS_WARM.lock().unwrap_or_else(|e| e.into_inner()).clone();
    let calls_stuck = stuck.len();
    let first = stuck.into_iter().min_by(|a, b| (a.n, &a.family, a.case.len(), &a.case).cmp(&(b.n, &b.family, b.case.len(), &b.case))).expect("some call is stuck");
    let args = Args { prop: prop.to_string(), tier, seed: 0, replay: None, extra: vec![] };
    let mut run = Run::new(&args, "bitset", "model_checking");
    let mut replay = first.replay.clone();
    let warm = match replay.get("warmup") {
        Some(_) => vec![],
        None => warm,
    };
    replay["warmup"] = json!(warm);
    run.violation(Violation::new(format!("stuck:{}:N={}:{}", first.family, first.n, first.case), describe(first.n, &warm, &first.text), replay));
    let (sections, longest) = stall::statistics();
    run.cov("exhaustive", false);
    run.cov("states", 0);
    run.cov("transitions", 0);
    run.cov("traces_validated_against_impl", 0);
    run.cov("ended_by", "a call into the library that did not return: the exploration was abandoned where it stood and only that call is reported");
    run.cov("calls_found_stuck", calls_stuck);
    run.cov("sections_completed_before", sections);
    run.cov("longest_completed_section_ms", longest);
    run.sample(json!({"stuck": first.text}));
    run.finish(&confirm)
}

/// The observer of the exploration's threads.  A worker found at the same point of a section `TIMEOUT_TICKS`
/// times in a row: violation (`report_stuck`, after a few more observations so that workers that got
/// stuck at about the same time are seen as well).  Last resort, should the process stall outside every
/// section: no call into the library returned for 120 s: exit 2, no verdict.
fn watchdog(prop: String, tier: Tier) {
    std::thread::spawn(move || {
        let (mut last, mut stalled_ticks) = (u64::MAX, 0u32);
        let per_second = (1000 / stall::TICK.as_millis()) as u32;
        let mut watch = stall::Watch::default();
        let mut found_at: Option<u32> = None;
        for tick in 0u32.. {
            std::thread::sleep(stall::TICK);
            let stuck = watch.observe_workers(stall::TIMEOUT_TICKS);
            if !stuck.is_empty() && tick >= *found_at.get_or_insert(tick) + 4 {
                report_stuck(&prop, tier, stuck.iter().filter_map(|s| s.pending()).map(|(p, d)| p.stuck(d)).collect());
            }
            let p = PROGRESS.load(Ordering::Relaxed);
            if p != last || WAITING_FOR_THE_DBG_PASS.load(Ordering::Relaxed) {
                last = p;
                stalled_ticks = 0;
            } else {
                stalled_ticks += 1;
                if stalled_ticks >= 120 * per_second {
                    let msg = format!(
                        "MACHINERY-FAILURE property={prop} engine=bitset no call into the code under test returned for 120 s and no thread is inside an observed call; no verdict"
                    );
                    println!("{msg}");
                    eprintln!("{msg}");
                    std::process::exit(2);
                }
            }
        }
    });
}

fn main() {
    cold::child_main_if_asked();
    let args = Args::parse();
    quiet_panics();
    watchdog(args.prop.clone(), args.tier);
    if args.replay.is_some() {
        Run::replay_main(&args, &confirm);
    }
    let mut run = Run::new(&args, "bitset", "model_checking");
    if !probes_work() {
        run.machinery_failure("the probes for optional traits (Hash, PartialOrd) do not tell a type that has them from one that has not");
    }
    let mut fams = Fams { seen: BTreeSet::new(), cold_hit: false, routed_to_cold: 0, cold_escalations: 0 };
    // cold-start pass first: fresh child processes, several threads, each using bitsets of its own
    let cold_outcome = match cold::pass() {
        Ok(o) => o,
        Err(e) => run.machinery_failure(&e),
    };
    for h in &cold_outcome.hits {
        fams.cold_hit = true;
        fams.report(&mut run, format!("cold.{}", h.item), Violation::new(h.signature.clone(), h.summary.clone(), h.replay.clone()));
    }
    let mut tot = Totals { all_closed: true, ..Default::default() };
    let thorough = args.tier == Tier::Thorough;
    let wall_cap = args.tier.pick(25.0, 500.0);
    // the same engine in the dbg profile (debug assertions and overflow checks), started by `run_dbg_child`
    let dbg_pass = std::env::var("VCORE_CHILD").is_ok();

    // main pass: every other capacity was used before on the thread, smallest first
    let main_pass = |n: usize, closure: bool, sweep_depth: usize| Plan {
        order: Order::Ascending,
        thorough,
        closure: if closure { Some(None) } else { None },
        sweep_depth,
        pairs: closure,
        pair_cap: if dbg_pass { pair_cap(n).min(DBG_PAIR_CAP) } else { pair_cap(n) },
        equality: true,
        placed: true,
        wall_cap,
    };
    run_cap(1, &mut run, &mut fams, &mut tot, main_pass(1, true, args.tier.pick(2, 3)));
    run_cap(2, &mut run, &mut fams, &mut tot, main_pass(2, true, 2));
    run_cap(3, &mut run, &mut fams, &mut tot, main_pass(3, true, args.tier.pick(1, 2)));
    // N = 10: closure and operator pairs only in the thorough tier; the depth-1 sweep over all 640
    // indices (which includes `!new()`, 640 members) runs in both
    run_cap(10, &mut run, &mut fams, &mut tot, main_pass(10, thorough, 1));
    // large capacities: closure over the reduced alphabet in both tiers, the sweep over every index only in thorough
    for n in CAPS.into_iter().filter(|&n| is_large(n)) {
        run_cap(n, &mut run, &mut fams, &mut tot, main_pass(n, true, args.tier.pick(0, 1)));
    }
    // second pass: the other capacities were used largest first (so the last one used is the smallest):
    // the closure again in thorough, its prefix of depth PREFIX in quick
    const PREFIX: usize = 2;
    for n in CAPS {
        let bound = if thorough { None } else { Some(PREFIX) };
        run_cap(n, &mut run, &mut fams, &mut tot, Plan { order: Order::Descending, thorough, closure: Some(bound), sweep_depth: 0, pairs: false, pair_cap: 0, equality: false, placed: false, wall_cap });
    }

    // one protocol case written out: {0, 63, 64, 191} of Bitset<3>, one item taken, then nth across the words
    if !run.has_violations() {
        let mut b = Bitset::<3>::from_u64(0x8000_0000_0000_0001);
        b.set(64);
        b.set(191);
        let mut seen = vec![];
        if catch(|| consume(|| b.iter_bits(), 1, Use::Nth(1), 194, &[0, 63, 64, 191], &mut seen)).is_ok() {
            run.sample(json!({"N": 3, "set": [0, 63, 64, 191], "after": "1 next() call", "consumed by": Use::Nth(1).text(), "observed": format!("{seen:?}")}));
        }
    }

    // everything again in a build with debug assertions and integer overflow checks: there a panic on an
    // in-domain call is a violation as well (signature prefix dbg:)
    if !dbg_pass {
        WAITING_FOR_THE_DBG_PASS.store(true, Ordering::Relaxed);
        run.run_dbg_child();
        WAITING_FOR_THE_DBG_PASS.store(false, Ordering::Relaxed);
    }

    let closed: Vec<usize> = CAPS.into_iter().filter(|&n| thorough || n != 10).collect();
    let (pools, warmups) = (POOLS.load(Ordering::Relaxed), WARMUPS.load(Ordering::Relaxed));
    if pools != 2 * CAPS.len() as u64 || warmups < pools {
        run.machinery_failure(&format!("{pools} thread pools and {warmups} warm-ups for {} passes", 2 * CAPS.len()));
    }
    run.cov("capacities", json!(CAPS));
    run.cov("capacities_closure", json!(closed));
    run.cov("capacities_bounded_sweep", if thorough { json!(CAPS) } else { json!([1, 2, 3, 10]) });
    run.cov("passes_each_in_a_thread_pool_of_its_own", pools);
    run.cov("threads_that_ran_the_warm_up", warmups);
    run.cov("states", tot.states);
    run.cov("transitions", tot.transitions);
    run.cov("traces_validated_against_impl", tot.transitions + tot.prefix_transitions + tot.sweep_transitions);
    run.cov("closure_prefix_states", tot.prefix_states);
    run.cov("closure_prefix_transitions", tot.prefix_transitions);
    run.cov("bounded_sweep_states", tot.sweep_states);
    run.cov("bounded_sweep_transitions", tot.sweep_transitions);
    run.cov("iterator_protocol", protocol_evidence(&ProtocolTotals::default()));
    run.cov("binary_operator_ordered_pairs", tot.pairs);
    run.cov("binary_operator_evaluations", tot.pair_evals);
    run.cov("equality_ordered_pairs", tot.eq_pairs);
    run.cov("equality_evaluations", tot.eq_evals);
    run.cov("operand_placement_layouts", tot.placed_layouts);
    run.cov("operand_placement_evaluations", tot.placed_evals);
    let (sections, longest) = stall::statistics();
    run.cov(
        "calls_that_must_return",
        json!({
            "observed_sections": sections,
            "longest_section_ms": longest,
            "timeout": stall::timeout_text(),
            "note": format!("every call into the library runs inside a section that is observed every {} ms; a thread found at the same point of the same section (no judged call returned in between) {} times in a row is reported as a violation (family stuck:) with a replay that is observed the same way", stall::TICK.as_millis(), stall::TIMEOUT_TICKS),
        }),
    );
    let mut cold_ev = cold::evidence(&cold_outcome);
    cold_ev["exploration_mismatches_not_reproduced_on_one_thread_and_left_to_this_pass"] = json!(fams.routed_to_cold);
    cold_ev["extra_rounds_of_the_menu_started_by_such_a_mismatch"] = json!(fams.cold_escalations);
    run.cov("cold_start_pass", cold_ev);
    run.cov("exhaustive", tot.all_closed && !run.has_violations());
    run.cov(
        "exhaustive_scope",
        "the closures over the position alphabet (every capacity of capacities_closure, after the ascending warm-up; in thorough also after the descending one), the operator pairs and the equality pairs over the stated operands; the full-alphabet sweep and the closure prefix after the descending warm-up are complete only to their depth bounds",
    );
    run.cov("initial_words", json!(INIT_WORDS.iter().map(|w| format!("{w:#x}")).collect::<Vec<_>>()));
    run.cov(
        "rule",
        "per capacity N of {1,2,3,10,64,65,130}: closure BFS over the real Bitset<N> from new(), default(), from_u64(w) (six words) under set/remove/flip at every \
         position of the alphabet of N, clear, !x, clone-and-replace, target.clone_from(&x) into an already observed target that is the complement of x or empty \
         (then continue with the target), and touch(M) for the capacities M next to N in the list (a Bitset<M> is built, rendered, counted, iterated, compared, \
         combined and cloned on the same thread; x must be unchanged), until no new state appears. Alphabet for N <= 10: P_N = {0,1,31,62,63,64,65,127,128,64N-2,64N-1} \
         below 64N; for N >= 64 (4096 bits = a 64x64 block, one word more, two blocks and two words): {0,63,64,4095,4096,4097,64N-1} below 64N, in thorough also \
         the positions around the later multiples of 4096. After every transition test(i) for every i < 64N, count, iter_bits (exact list, at most 64N+1 items \
         pulled), == / != against a bitset rebuilt by set() and against one-bit neighbours at every position of P_N and around every multiple of 4096, Display \
         and Debug (all 64N characters; for N >= 64 Debug once per distinct state reached instead of per transition) are compared with a Vec<bool> model; state identity = model bits + Display rendering (no field dropped). \
         Iterator protocol, once per distinct state of every closure, prefix and sweep (the iterator only reads the bitset and a state is its complete \
         contents): with L members, small = {0,1,2,3,L-1,L,L+1} and ranks = small, L-2 and r-1,r,r+1 for the rank r of every mark (marks: P_N, the positions around \
         every multiple of 4096, for N <= 10 also 64w-1,64w,64w+1 for every word w), an iterator that has yielded j items through next() is consumed, first, by the \
         methods that take a closure, for j in small: fold and for_each (number and order-sensitive digest), reduce, max_by_key / min_by_key / max_by / min_by on x % 64, and \
         for p in {0,63,64,64N-1} [find(x>=p), next(), position(x>=p+64), next(), all, next(); any(x>p), next(); find_map] - the engine's closure ends a method that calls it more \
         than 4(64N+2) times, which is reported as `does not terminate`; then by [nth(t-j), next(), nth(t-j), next()] for all j <= t in ranks (t = L, L+1: exactly and one more \
         than what is left); by_ref().skip(k) (first three items, then next()) for j in small, k in ranks; step_by(s) (all items) for s in {1,2,3,64,65}, by_ref().take(k) then \
         next() for k in small, last(), count(), [sum, max, min], collect into BTreeSet and HashSet / partition / extend of a non-empty Vec, eq / ne / cmp / partial_cmp / le against \
         the rest of the list, and a walk to the first None followed by next(), next(), nth(0), nth(2), count(), last() (all None / 0: after all members any further item \
         would be a non-member or a repetition), each for j in small; the observations must equal those of the SAME generic code run on the model's ascending Vec<usize>; \
         size_hint() must satisfy lower <= items left <= upper before every next() of a full walk and after nth(k) for k in ranks; every pass must have judged states in which \
         a word holds only its top bit and states in which a word holds only its bottom bit (a fresh iterator is consumed by every family in every state). Then & | ^ and \
         &= |= ^= on all ordered pairs (self-pairs included) of the first min(states, 1500; 128 for N >= 64) patterns in BFS order, operands rebuilt from the \
         pattern by set(); results and operands read back through test(i) for every i. Equality: ==, != on values and on references (and, if Bitset implements them, Hash on equal \
         sets and partial_cmp) on ALL ordered pairs (i = j: two objects built separately) of the equality operands: for every offset o in {0,1,31,62,63} the sets {64w+o : w in W} \
         for W empty, W = {w} for every word w, and every W of two, three or four marked words (0,1,2,N/2,N-2,N-1,63,64,65 below N), the complements of all these, and every \
         reached pattern of the closure (all of them; a cap of 20000 is reported if it applies); judged against equality of the patterns; self-check: pairs differing in one bit, \
         in the same offset of exactly two words for EVERY pair of words, of three and of four words exist. Operand placement: in all the parts above every bitset the engine creates \
         (states, operands, targets of assigning operators, comparison partners) lives at a 64-byte aligned address, in the exploration and in the re-execution; the placement family then \
         puts the operands a, b at every combination of addresses modulo 64: elements (i, i+d) and (i+d, i), i < 8, of a [Bitset<N>; 16] (taken through split_at_mut) and the fields b of the \
         same elements of a [#[repr(C)] struct {pad: u64, b: Bitset<N>}; 16], both arrays starting at a 64-byte boundary, d = 1..8 in the array whose element size is an odd number of words \
         (there the 128 layouts reach all 8 x 8 combinations, checked) and d = 1, 2 in the other; then elements (0,1), (1,0), (0,2), (2,0) of a Vec<Bitset<N>> of three and two Box<Bitset<N>> \
         (placed by the allocator; addresses modulo 16 recorded and demanded again by the replay). In every layout, for all ordered pairs of the placement patterns (empty, full, two patterns \
         whose words all differ, for N <= 10 also first word only, last word only, stripes), operands written in place: & | ^ on references, &= |= ^=, a.clone_from(&b), == / != (both orders), \
         result and both operands read back through test(i) for every i; in the layouts (i, i+1) also on ONE placed operand: every observer of the oracle, clone(), and flip, flip, set, remove at every \
         position of the alphabet, then clear; after a layout every other element of the container must still hold the pattern it was given (and the pads their numbers). The full-alphabet sweep (every index 0..64N) is depth-bounded and reported \
         separately. Interference between capacities: every pass runs in a thread pool of its own whose threads first use a bitset of every OTHER capacity \
         (ascending in the main pass; descending in a second pass that repeats the closure - in quick its prefix of depth 2); a violation is re-executed on a \
         fresh thread that performs the recorded warm-up and then the recorded case. Calls that do not return: every call into the library (constructors, transitions, \
         observers, per-state judgement, operator and equality rows, operand building, the warm-up) runs inside a section on the thread where its history ran; a monitor looks at \
         all threads every 250 ms, and a thread found at the same point of the same section (no judged call has returned in between) 40 times in a row is reported as a violation of family stuck: with the state (or operands) and the \
         call it is in; its replay runs on a fresh thread observed in the same way with the same timeout. Cold start, independent objects used from several threads: the engine binary is started again as a fresh process for every item of the menu \
         {Display, Debug, count, iter_bits, test, from_u64, new/default/clear, !x, & | ^ ^=, clone/==/!=} x T in {2, 4, 16} threads x 8 repetitions; the T threads are released together by a barrier, thread i idles for \
         (repetition x i) busy-loop iterations and then performs the item on bitsets of its OWN of capacities 1, 2, 3 as its first use of the library, judged against the model (family cold:). This pass is an enumeration of \
         cold-start configurations whose thread overlap is NOT controlled by a scheduler (free-running): a miss proves nothing, a wrong result in any child is a genuine output of the real code; its replay records (item, T, stagger) and starts up to 64 \
         fresh processes, reproducing if any of them shows a wrong result. A mismatch seen by the parallel workers of the exploration that one thread does not reproduce is left to the findings of this pass when it has any. \
         The whole tier runs a second time in the dbg profile (debug assertions \
         and integer overflow checks; there the binary operators use at most 400 operands), where a panic on an in-domain call is a violation (signature prefix dbg:).",
    );
    run.assume("Display of a Bitset together with test(i) for every i < 64N exposes its complete state (the struct has the single field `data`); state identity uses the model bits plus the Display rendering");
    run.assume("histories over positions outside the alphabet of N are covered only to the stated depth of the full-alphabet sweep (quick: no such sweep for N >= 64); capacities other than those listed are not explored");
    run.assume("state shared between capacities is exercised through: the warm-up orders (all other capacities ascending / descending before the first judged call of a thread) and touch(M) inside histories for the neighbouring capacities; what a worker thread did for OTHER states of the same capacity before a judged call is not part of a recorded history");
    run.assume("the iterator protocol is judged once per distinct state (model bits + Display rendering), not after every transition: iter_bits() borrows the bitset immutably, so what it yields can depend on the history only through the state; the adaptors themselves (skip, step_by, take, ...) are std's and are trusted, what is judged are the Iterator methods of the iterator that they call");
    run.assume("a call into the library that never returns cannot be decided without a clock, except where the engine's own closure is being called (there it is ended after 4(64N+2) calls): a thread observed inside the same call 40 times in a row, 250 ms apart, is taken to be in a call that does not terminate (the longest whole section of this run - up to thousands of judged calls - is reported under calls_that_must_return: the margin is the evidence that a slow machine is not mistaken for a hang; observations are counted, not timed, so a stopped process does not age); the choice among several calls stuck at the same time is the smallest (capacity, family, case), not the first in enumeration order. Only a stall outside every section for 120 s still ends in exit 2 without a verdict");
    run.assume("Hash and PartialOrd are not implemented by Bitset at the pinned revision; the equality pairs probe for them at compile time and judge them (equal sets hash alike; partial_cmp is Equal exactly for equal sets and antisymmetric) only if they exist — no order between different sets is demanded");
    run.assume("placement: outside the placement family every bitset the engine creates is 64-byte aligned, so the closure, the sweep, the operator pairs and the equality pairs see one address class; the placement family covers the operand addresses modulo 64 (all 64 combinations for two operands, all 8 classes for one) with the stated patterns, not with every reached pattern; values returned by value (a & b, !x, clone()) are created in the callee's frame, whose placement the engine does not own; addresses modulo more than 64 (pages) are not varied");
    run.assume("concurrent use is covered only by the cold-start pass (independent bitsets, first use of the library in a process, menu x thread counts x start offsets as stated); it is free-running, so it can only find, never exclude, an effect of overlapping first uses; objects shared between threads are not in the property and are not exercised");
    run.assume("the dbg-profile pass judges the same plan with a smaller operand cap for the binary operators; it reports through the parent (signature prefix dbg:) and its replays run in the dbg build");
    run.finish(&confirm)
}
