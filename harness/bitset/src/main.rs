fn main() { eprintln!("engine not built yet"); std::process::exit(2); }
