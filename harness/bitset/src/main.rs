//! C12 — `Bitset<N>` agrees with a set of indices.
//!
//! Form R (reachable-state closure), for every capacity N of the tier:
//!
//! 1. closure BFS over the REAL `Bitset<N>` from `new()`, `default()`, `from_u64(w)` (six words) under
//!    `set(p)`, `remove(p)`, `flip(p)` for every p of the boundary alphabet P_N, `clear()`, `!x`, and
//!    clone-and-replace.  The search runs until no new state appears, so the verdict covers histories
//!    of any length over that alphabet.  After EVERY transition the complete observable surface is
//!    compared with the model (`Vec<bool>` of length 64N): `test(i)` for every i, `count()`,
//!    `iter_bits()` (exact ascending list, at most 64N+1 items pulled), `==` / `!=` against a second
//!    bitset built from the model by `set` and against one-bit neighbours, `Display`, `Debug`.
//! 2. a bounded sweep with the FULL position alphabet 0..64N (every index, not only the boundary ones)
//!    to a small stated depth — labelled as bounded, not a closure.
//! 3. the binary operators `& | ^` (on references) and `&= |= ^=` on ALL ordered pairs of the first
//!    K states of the closure in BFS order (K = min(states, 1500); the cap is reported).
//!
//! Indices >= 64N are outside the property and are never passed.

use rayon::prelude::*;
use rlib_bitset::Bitset;
use serde::{Deserialize, Serialize};
use std::collections::{BTreeSet, HashSet, VecDeque};
use std::sync::atomic::{AtomicU64, Ordering};
use vcore::*;

/// Bumped on every call into the code under test; a watchdog turns a stall (a call that never returns,
/// e.g. an iterator looping inside `next`) into a machinery failure (exit 2) instead of a hung check.
static PROGRESS: AtomicU64 = AtomicU64::new(0);

const INIT_WORDS: [u64; 6] = [0, 1, 1 << 63, u64::MAX, 0xAAAA_AAAA_AAAA_AAAA, 0x8000_0000_0000_0001];
const PAIR_CAP: usize = 1500;
const OPS: [&str; 6] = ["and", "or", "xor", "and_assign", "or_assign", "xor_assign"];

#[derive(Clone, Debug, Serialize, Deserialize, PartialEq)]
enum Act {
    New,
    Default,
    FromU64(u64),
    Set(usize),
    Remove(usize),
    Flip(usize),
    Clear,
    Not,
    CloneReplace,
}

fn kind_of(a: &Act) -> &'static str {
    match a {
        Act::New => "new",
        Act::Default => "default",
        Act::FromU64(_) => "from_u64",
        Act::Set(_) => "set",
        Act::Remove(_) => "remove",
        Act::Flip(_) => "flip",
        Act::Clear => "clear",
        Act::Not => "not",
        Act::CloneReplace => "clone",
    }
}

/// Boundary alphabet P_N of DESIGN §4 C12.
fn boundary_positions(n: usize) -> Vec<usize> {
    let top = 64 * n;
    let mut v: Vec<usize> = [0, 1, 31, 62, 63, 64, 65, 127, 128, top - 2, top - 1].into_iter().filter(|&p| p < top).collect();
    v.sort();
    v.dedup();
    v
}

fn init_menu() -> Vec<Act> {
    let mut v = vec![Act::New, Act::Default];
    v.extend(INIT_WORDS.iter().map(|&w| Act::FromU64(w)));
    v
}

fn action_menu(pos: &[usize]) -> Vec<Act> {
    let mut v = vec![];
    v.extend(pos.iter().map(|&p| Act::Set(p)));
    v.extend(pos.iter().map(|&p| Act::Remove(p)));
    v.extend(pos.iter().map(|&p| Act::Flip(p)));
    v.push(Act::Clear);
    v.push(Act::Not);
    v.push(Act::CloneReplace);
    v
}

// ---------------------------------------------------------------------------------------------
// the reference model: a plain vector of booleans

fn model_init(n: usize, a: &Act) -> Option<Vec<bool>> {
    let mut m = vec![false; 64 * n];
    match a {
        Act::New | Act::Default => {}
        Act::FromU64(w) => {
            for i in 0..64 {
                m[i] = (w >> i) & 1 == 1;
            }
        }
        _ => return None,
    }
    Some(m)
}

fn model_apply(m: &mut [bool], a: &Act) {
    match *a {
        Act::Set(p) => m[p] = true,
        Act::Remove(p) => m[p] = false,
        Act::Flip(p) => m[p] = !m[p],
        Act::Clear => m.iter_mut().for_each(|b| *b = false),
        Act::Not => m.iter_mut().for_each(|b| *b = !*b),
        Act::CloneReplace => {}
        Act::New | Act::Default | Act::FromU64(_) => unreachable!(),
    }
}

fn model_string(m: &[bool]) -> String {
    m.iter().map(|&b| if b { '1' } else { '0' }).collect()
}

/// Bit i of the set -> bit (i mod 64) of word i div 64 (only a compact notation for patterns).
fn model_words(m: &[bool]) -> Vec<u64> {
    let mut w = vec![0u64; m.len() / 64];
    for (i, &b) in m.iter().enumerate() {
        if b {
            w[i / 64] |= 1u64 << (i % 64);
        }
    }
    w
}

fn hex(w: &[u64]) -> String {
    let parts: Vec<String> = w.iter().map(|x| format!("{x:#x}")).collect();
    format!("[{}]", parts.join(","))
}

/// Model-only BFS with the same constructor and action order as the explorer: the reachable bit
/// patterns in BFS order (used to pick the operands of the binary operators deterministically).
fn model_bfs(n: usize, pos: &[usize]) -> Vec<Vec<bool>> {
    let menu = action_menu(pos);
    let mut seen: HashSet<Vec<bool>> = HashSet::new();
    let mut order: Vec<Vec<bool>> = vec![];
    let mut queue: VecDeque<Vec<bool>> = VecDeque::new();
    for a in init_menu() {
        let m = model_init(n, &a).unwrap();
        if seen.insert(m.clone()) {
            order.push(m.clone());
            queue.push_back(m);
        }
    }
    while let Some(m) = queue.pop_front() {
        for a in &menu {
            let mut m2 = m.clone();
            model_apply(&mut m2, a);
            if seen.insert(m2.clone()) {
                order.push(m2.clone());
                queue.push_back(m2);
            }
        }
    }
    order
}

// ---------------------------------------------------------------------------------------------
// the oracle: every observer of the real bitset against the model

fn render_diff(what: &str, got: &str, exp: &str) -> String {
    if got.len() != exp.len() {
        return format!("{what} has {} characters, expected {}", got.len(), exp.len());
    }
    let i = got.bytes().zip(exp.bytes()).position(|(a, b)| a != b).unwrap_or(0);
    format!("{what} shows '{}' at index {i}, the set says '{}'", &got[i..i + 1], &exp[i..i + 1])
}

/// Err((observer family, message)).  Ok = the Display rendering that was observed (it equals the model string).
fn oracle<const N: usize>(b: &Bitset<N>, m: &[bool], probe: &[usize]) -> Result<String, (&'static str, String)> {
    let top = 64 * N;
    for i in 0..top {
        let got = b.test(i);
        if got != m[i] {
            return Err(("test", format!("test({i}) = {got}, the set says {}", m[i])));
        }
    }
    let members: Vec<usize> = (0..top).filter(|&i| m[i]).collect();
    let c = b.count();
    if c != members.len() {
        return Err(("count", format!("count() = {c}, the set has {} members", members.len())));
    }
    let got: Vec<usize> = b.iter_bits().take(top + 1).collect();
    if got.len() > top {
        return Err(("iter", format!("iter_bits() yielded more than {top} items (does not terminate); first items {:?}", &got[..8.min(got.len())])));
    }
    if got != members {
        let i = got.iter().zip(members.iter()).position(|(a, b)| a != b).unwrap_or(got.len().min(members.len()));
        return Err((
            "iter",
            format!(
                "iter_bits() yielded {} items, the set has {}; first difference at position {i}: got {:?}, expected {:?}",
                got.len(),
                members.len(),
                got.get(i),
                members.get(i)
            ),
        ));
    }
    let mut other = Bitset::<N>::new();
    for &i in &members {
        other.set(i);
    }
    if !(*b == other) || *b != other || !(other == *b) {
        return Err(("eq", "the bitset is not == to a bitset built from the same set by set()".into()));
    }
    for &p in probe {
        if m[p] {
            other.remove(p);
        } else {
            other.set(p);
        }
        if *b == other || !(*b != other) || other == *b {
            return Err(("eq", format!("the bitset compares == to a bitset that differs from it exactly in bit {p}")));
        }
        if m[p] {
            other.set(p);
        } else {
            other.remove(p);
        }
    }
    let exp = model_string(m);
    let d = format!("{}", b);
    if d != exp {
        return Err(("display", render_diff("Display", &d, &exp)));
    }
    let dbg = format!("{:?}", b);
    if dbg != exp {
        return Err(("debug", render_diff("Debug", &dbg, &exp)));
    }
    Ok(d)
}

#[derive(Clone)]
struct St<const N: usize> {
    b: Bitset<N>,
    m: Vec<bool>,
    /// Display rendering of `b` taken by the oracle right after the last transition (part of the state key)
    disp: String,
}

struct Sys<const N: usize> {
    /// positions used by set / remove / flip
    pos: Vec<usize>,
    /// positions of the one-bit-neighbour inequality checks (always the boundary alphabet)
    probe: Vec<usize>,
}

impl<const N: usize> Sys<N> {
    fn boundary() -> Self {
        Sys { pos: boundary_positions(N), probe: boundary_positions(N) }
    }
    fn full() -> Self {
        Sys { pos: (0..64 * N).collect(), probe: boundary_positions(N) }
    }
    fn named(alphabet: &str) -> Self {
        if alphabet == "full" {
            Self::full()
        } else {
            Self::boundary()
        }
    }
}

fn tag(kind: &str, e: (&'static str, String)) -> String {
    format!("[{kind}.{}] {}", e.0, e.1)
}

impl<const N: usize> System for Sys<N> {
    type State = St<N>;
    type Action = Act;

    fn inits(&self) -> Vec<Act> {
        init_menu()
    }

    fn init(&self, a: &Act) -> Result<St<N>, String> {
        PROGRESS.fetch_add(1, Ordering::Relaxed);
        let m = model_init(N, a).ok_or_else(|| "not a constructor".to_string())?;
        let b = match a {
            Act::New => Bitset::<N>::new(),
            Act::Default => <Bitset<N> as Default>::default(),
            Act::FromU64(w) => Bitset::<N>::from_u64(*w),
            _ => unreachable!(),
        };
        let disp = oracle(&b, &m, &self.probe).map_err(|e| tag(kind_of(a), e))?;
        Ok(St { b, m, disp })
    }

    fn actions(&self, _s: &St<N>) -> Vec<Act> {
        action_menu(&self.pos)
    }

    fn step(&self, s: &mut St<N>, a: &Act) -> Result<u64, String> {
        PROGRESS.fetch_add(1, Ordering::Relaxed);
        let top = 64 * N;
        match *a {
            Act::New | Act::Default | Act::FromU64(_) => {
                eprintln!("machinery: constructor inside a history");
                std::process::exit(2)
            }
            Act::Set(p) | Act::Remove(p) | Act::Flip(p) if p >= top => {
                eprintln!("machinery: index {p} is outside 0..{top} (outside the property)");
                std::process::exit(2)
            }
            Act::Set(p) => s.b.set(p),
            Act::Remove(p) => s.b.remove(p),
            Act::Flip(p) => s.b.flip(p),
            Act::Clear => s.b.clear(),
            Act::Not => {
                let x = s.b.clone();
                s.b = !x;
            }
            Act::CloneReplace => {
                let c = s.b.clone();
                if !(c == s.b) || c != s.b {
                    return Err("[clone.eq] a clone is not == to its original".into());
                }
                let (d1, d2) = (format!("{}", c), format!("{}", s.b));
                if d1 != d2 {
                    return Err(format!("[clone.display] {}", render_diff("the clone's Display", &d1, &d2)));
                }
                s.b = c;
            }
        }
        model_apply(&mut s.m, a);
        s.disp = oracle(&s.b, &s.m, &self.probe).map_err(|e| tag(kind_of(a), e))?;
        Ok(fnv(s.disp.as_bytes()))
    }

    fn canon(&self, s: &St<N>) -> Vec<u8> {
        let mut k: Vec<u8> = s.m.iter().map(|&b| b as u8).collect();
        k.push(b'|');
        k.extend(s.disp.bytes());
        k
    }

    fn kind(&self, a: &Act) -> &'static str {
        kind_of(a)
    }
}

// ---------------------------------------------------------------------------------------------
// binary operators on pairs of reached bit patterns

fn build<const N: usize>(w: &[u64]) -> Bitset<N> {
    let mut b = Bitset::<N>::new();
    for i in 0..64 * N {
        if (w[i / 64] >> (i % 64)) & 1 == 1 {
            b.set(i);
        }
    }
    b
}

/// Membership of every index, read through `test`, packed into words.
fn read_words<const N: usize>(b: &Bitset<N>) -> [u64; N] {
    let mut w = [0u64; N];
    for i in 0..64 * N {
        if b.test(i) {
            w[i / 64] |= 1u64 << (i % 64);
        }
    }
    w
}

fn expected_op<const N: usize>(op: usize, wa: &[u64], wb: &[u64]) -> [u64; N] {
    std::array::from_fn(|k| match op % 3 {
        0 => wa[k] & wb[k],
        1 => wa[k] | wb[k],
        _ => wa[k] ^ wb[k],
    })
}

/// One operator on one ordered pair.  Ok = membership words of the result.
fn pair_case<const N: usize>(op: usize, a: &Bitset<N>, wa: &[u64], b: &Bitset<N>, wb: &[u64]) -> Result<[u64; N], String> {
    let exp: [u64; N] = expected_op::<N>(op, wa, wb);
    let res: Bitset<N> = match op {
        0 => a & b,
        1 => a | b,
        2 => a ^ b,
        3 => {
            let mut c = a.clone();
            c &= b;
            c
        }
        4 => {
            let mut c = a.clone();
            c |= b;
            c
        }
        _ => {
            let mut c = a.clone();
            c ^= b;
            c
        }
    };
    let got = read_words(&res);
    if got != exp {
        return Err(format!("{} of {} and {} gave the set {}, the set operation gives {}", OPS[op], hex(wa), hex(wb), hex(&got), hex(&exp)));
    }
    let pc: usize = exp.iter().map(|x| x.count_ones() as usize).sum();
    if res.count() != pc {
        return Err(format!("{} of {} and {}: count() of the result = {}, the result set has {pc} members", OPS[op], hex(wa), hex(wb), res.count()));
    }
    if read_words(a)[..] != *wa {
        return Err(format!("{} of {} and {} changed its left operand to {}", OPS[op], hex(wa), hex(wb), hex(&read_words(a))));
    }
    if read_words(b)[..] != *wb {
        return Err(format!("{} of {} and {} changed its right operand to {}", OPS[op], hex(wa), hex(wb), hex(&read_words(b))));
    }
    Ok(got)
}

/// Build the operand for a pattern and read it back: Err if set() on new() does not give the pattern.
fn build_checked<const N: usize>(w: &[u64]) -> Result<Bitset<N>, String> {
    match catch(|| {
        let b = build::<N>(w);
        let back = read_words(&b);
        (b, back)
    }) {
        Ok((b, back)) if back[..] == *w => Ok(b),
        Ok((_, back)) => Err(format!("a bitset built from new() by set(i) for every member of {} reads back through test() as {}", hex(w), hex(&back))),
        Err(p) => Err(format!("building {} from new() by set(i) and reading it back through test() panicked: {p}", hex(w))),
    }
}

fn pair_plain<const N: usize>(op: usize, wa: &[u64], wb: &[u64]) -> Result<(), String> {
    build_checked::<N>(wa)?;
    build_checked::<N>(wb)?;
    let r = catch(|| {
        let (a, b) = (build::<N>(wa), build::<N>(wb));
        if wa == wb {
            pair_case::<N>(op, &a, wa, &a, wa)
        } else {
            pair_case::<N>(op, &a, wa, &b, wb)
        }
    });
    match r {
        Ok(Ok(_)) => Ok(()),
        Ok(Err(m)) => Err(m),
        Err(p) => Err(format!("{} of {} and {} panicked: {p}", OPS[op], hex(wa), hex(wb))),
    }
}

struct RowOut {
    evals: u64,
    overlapping: u64,
    fails: Vec<Option<(usize, String)>>,
    results: HashSet<u64>,
}

struct PairReport {
    operands: usize,
    pairs: u64,
    evals: u64,
    overlapping: u64,
    distinct_results: u64,
    /// per operator: first failing (i, j, message) in enumeration order
    fails: Vec<Option<(usize, usize, String)>>,
}

/// Err((pattern index, message)) if an operand cannot be constructed faithfully (then no pair is evaluated).
fn pairs<const N: usize>(pats: &[Vec<u64>]) -> Result<PairReport, (usize, String)> {
    for (i, w) in pats.iter().enumerate() {
        build_checked::<N>(w).map_err(|m| (i, m))?;
    }
    let k = pats.len();
    let rows: Vec<RowOut> = (0..k)
        .into_par_iter()
        .map(|i| {
            let mut out = RowOut { evals: 0, overlapping: 0, fails: vec![None; 6], results: HashSet::new() };
            // operands are rebuilt per row: a Bitset need not be Sync (it may hold interior caches)
            let bs: Vec<Bitset<N>> = pats.iter().map(|w| build::<N>(w)).collect();
            for j in 0..k {
                PROGRESS.fetch_add(1, Ordering::Relaxed);
                let (wa, wb) = (&pats[i], &pats[j]);
                let and: [u64; N] = expected_op::<N>(0, wa, wb);
                if and.iter().any(|&x| x != 0) && and[..] != wa[..] && and[..] != wb[..] {
                    out.overlapping += 1;
                }
                for op in 0..6 {
                    if out.fails[op].is_some() {
                        continue;
                    }
                    out.evals += 1;
                    match catch(|| pair_case::<N>(op, &bs[i], wa, &bs[j], wb)) {
                        Ok(Ok(w)) => {
                            let bytes: Vec<u8> = w.iter().flat_map(|x| x.to_le_bytes()).collect();
                            out.results.insert(fnv(&bytes) ^ (op as u64 % 3));
                        }
                        Ok(Err(m)) => out.fails[op] = Some((j, m)),
                        Err(p) => out.fails[op] = Some((j, format!("{} of {} and {} panicked: {p}", OPS[op], hex(wa), hex(wb)))),
                    }
                }
            }
            out
        })
        .collect();
    let mut rep = PairReport { operands: k, pairs: (k * k) as u64, evals: 0, overlapping: 0, distinct_results: 0, fails: vec![None; 6] };
    let mut results: HashSet<u64> = HashSet::new();
    for (i, row) in rows.into_iter().enumerate() {
        rep.evals += row.evals;
        rep.overlapping += row.overlapping;
        results.extend(row.results);
        for op in 0..6 {
            if rep.fails[op].is_none() {
                if let Some((j, m)) = &row.fails[op] {
                    rep.fails[op] = Some((i, *j, m.clone()));
                }
            }
        }
    }
    rep.distinct_results = results.len() as u64;
    Ok(rep)
}

// ---------------------------------------------------------------------------------------------
// per-capacity driver

/// Violations, at most one per check family (the first in enumeration order: N ascending, BFS order).
struct Fams {
    seen: BTreeSet<String>,
}

impl Fams {
    fn report(&mut self, run: &mut Run, family: String, v: Violation) {
        if self.seen.insert(family) {
            run.violation(v);
        }
    }
}

fn family_of(found: &Found) -> String {
    if let (Some(i), Some(j)) = (found.message.find('['), found.message.find(']')) {
        if i < j {
            return found.message[i + 1..j].to_string();
        }
    }
    let last: Option<Act> = found.history.last().and_then(|v| serde_json::from_value(v.clone()).ok());
    format!("{}.panic", last.as_ref().map(kind_of).unwrap_or("unknown"))
}

#[derive(Default)]
struct Totals {
    states: u64,
    transitions: u64,
    sweep_states: u64,
    sweep_transitions: u64,
    pair_evals: u64,
    pairs: u64,
    all_closed: bool,
}

fn closure_violation(run: &mut Run, fams: &mut Fams, n: usize, alphabet: &str, f: &Found) {
    let fam = family_of(f);
    let sig = format!("closure:{fam}:N={n}:{alphabet}:{}", serde_json::to_string(&f.history).unwrap());
    let summary = format!("Bitset<{n}> after {}: {}", serde_json::to_string(&f.history).unwrap(), f.message);
    fams.report(run, format!("closure:{fam}"), Violation::new(sig, summary, json!({"kind": "closure", "n": n, "alphabet": alphabet, "history": f.history})));
}

/// Every history of at most `depth` actions over the FULL position alphabet (every index 0..64N).
fn sweep<const N: usize>(run: &mut Run, fams: &mut Fams, tot: &mut Totals, ev: &mut serde_json::Map<String, Value>, depth: usize, wall_cap: f64) {
    if depth == 0 {
        return;
    }
    let sysf = Sys::<N>::full();
    let cfgf = ExploreCfg { max_depth: Some(depth), max_states: 5_000_000, wall_cap_s: wall_cap };
    let rf = explore(&sysf, &cfgf);
    tot.sweep_states += rf.states;
    tot.sweep_transitions += rf.transitions;
    let mut j = rf.to_json();
    j["depth_bound"] = json!(depth);
    j["note"] = json!("NOT a closure: every history of at most depth_bound actions with set/remove/flip on EVERY index 0..64N (plus clear, not, clone) from every constructor");
    ev.insert("full_alphabet_bounded_sweep".into(), j);
    if let Some(f) = &rf.violation {
        closure_violation(run, fams, N, "full", f);
    } else if rf.completed_depth < depth && !rf.closed {
        tot.all_closed = false;
        ev.insert("full_alphabet_bounded_sweep_incomplete".into(), json!(rf.cap_hit));
    } else if rf.transitions == 0 || rf.per_kind.get("flip").copied().unwrap_or(0) < (6 * 64 * N) as u64 {
        run.machinery_failure(&format!("N={N}: the full-alphabet sweep did not apply flip at every index from every constructor state"));
    }
}

/// `full` = closure + sweep + operator pairs; otherwise only the bounded full-alphabet sweep.
fn run_n<const N: usize>(run: &mut Run, fams: &mut Fams, tot: &mut Totals, full: bool, sweep_depth: usize, wall_cap: f64) {
    let mut ev = serde_json::Map::new();
    let pos = boundary_positions(N);
    ev.insert("bits".into(), json!(64 * N));
    ev.insert("boundary_positions".into(), json!(pos));
    if !full {
        ev.insert("scope".into(), json!("bounded full-alphabet sweep only at this tier (no closure, no operator pairs)"));
        sweep::<N>(run, fams, tot, &mut ev, sweep_depth, wall_cap);
        run.cov(&format!("N={N}"), Value::Object(ev));
        return;
    }

    // 1. closure over the boundary alphabet
    let sys = Sys::<N>::boundary();
    let cfg = ExploreCfg { max_depth: None, max_states: 5_000_000, wall_cap_s: wall_cap };
    let r = explore(&sys, &cfg);
    tot.states += r.states;
    tot.transitions += r.transitions;
    tot.all_closed &= r.closed && r.violation.is_none();
    ev.insert("closure".into(), r.to_json());
    for h in r.sample_histories.iter().take(2) {
        run.sample(json!({"N": N, "history_reaching_a_state": h}));
    }
    if let Some(f) = &r.violation {
        closure_violation(run, fams, N, "boundary", f);
    }

    // operand patterns: model BFS order (identical to the explorer's order when the closure held)
    let pats_m = model_bfs(N, &pos);
    if r.violation.is_none() && r.closed {
        if r.states != pats_m.len() as u64 {
            run.machinery_failure(&format!("N={N}: the explorer closed with {} states but the model alone reaches {} patterns", r.states, pats_m.len()));
        }
        if (r.states as usize) < (1usize << pos.len()) {
            run.machinery_failure(&format!("N={N}: fewer states than subsets of the position alphabet"));
        }
        for k in ["set", "remove", "flip", "clear", "not", "clone"] {
            if r.per_kind.get(k).copied().unwrap_or(0) == 0 {
                run.machinery_failure(&format!("N={N}: action kind {k} was never applied"));
            }
        }
        let words: Vec<Vec<u64>> = pats_m.iter().map(|m| model_words(m)).collect();
        let has = |f: &dyn Fn(&Vec<u64>) -> bool| words.iter().any(|w| f(w));
        if !has(&|w| w.iter().all(|&x| x == 0)) || !has(&|w| w.iter().all(|&x| x == u64::MAX)) {
            run.machinery_failure(&format!("N={N}: the empty or the full set was not reached"));
        }
        for &p in &pos {
            if !has(&|w| (w[p / 64] >> (p % 64)) & 1 == 1) || !has(&|w| (w[p / 64] >> (p % 64)) & 1 == 0) {
                run.machinery_failure(&format!("N={N}: position {p} was not seen both set and clear"));
            }
        }
        if N >= 2 {
            // the iterator has to skip an empty first word and find a member in the last one;
            // members on both sides of the 63/64 boundary
            if !has(&|w| w[0] == 0 && w[N - 1] != 0) || !has(&|w| (w[0] >> 63) & 1 == 1 && w[1] & 1 == 1) {
                run.machinery_failure(&format!("N={N}: no state with an empty first word and a non-empty last word, or none with 63 and 64 both set"));
            }
        }
    }

    // 2. bounded sweep with the full position alphabet
    sweep::<N>(run, fams, tot, &mut ev, sweep_depth, wall_cap);

    // 3. binary operators on all ordered pairs of the first K reached patterns
    let k = pats_m.len().min(PAIR_CAP);
    let pats: Vec<Vec<u64>> = pats_m[..k].iter().map(|m| model_words(m)).collect();
    let pr = match pairs::<N>(&pats) {
        Ok(pr) => pr,
        Err((i, m)) => {
            let w = &pats[i];
            ev.insert("binary_operators".into(), json!({"skipped": "operands cannot be constructed by set(): reported as family `build`", "operator_evaluations": 0}));
            let replay = json!({"kind": "build", "n": N, "a": w.iter().map(|x| format!("{x:#x}")).collect::<Vec<_>>()});
            fams.report(run, "build".into(), Violation::new(format!("build:N={N}:a={}", hex(w)), format!("Bitset<{N}>: {m}"), replay));
            run.cov(&format!("N={N}"), Value::Object(ev));
            return;
        }
    };
    tot.pair_evals += pr.evals;
    tot.pairs += pr.pairs;
    ev.insert(
        "binary_operators".into(),
        json!({
            "reached_patterns": pats_m.len(),
            "operands_used": pr.operands,
            "cap": PAIR_CAP,
            "cap_applied": pats_m.len() > PAIR_CAP,
            "ordered_pairs": pr.pairs,
            "operator_evaluations": pr.evals,
            "pairs_properly_overlapping": pr.overlapping,
            "distinct_results": pr.distinct_results,
        }),
    );
    if pr.fails.iter().all(|f| f.is_none()) && (pr.overlapping == 0 || pr.distinct_results < 3 * k as u64 / 2) {
        run.machinery_failure(&format!("N={N}: the operand pairs are implausibly uniform (overlapping {}, distinct results {})", pr.overlapping, pr.distinct_results));
    }
    for op in 0..6 {
        if let Some((i, j, m)) = &pr.fails[op] {
            let (wa, wb) = (&pats[*i], &pats[*j]);
            let sig = format!("{}:N={N}:a={}:b={}", OPS[op], hex(wa), hex(wb));
            let replay = json!({"kind": "pair", "n": N, "op": OPS[op],
                "a": wa.iter().map(|x| format!("{x:#x}")).collect::<Vec<_>>(),
                "b": wb.iter().map(|x| format!("{x:#x}")).collect::<Vec<_>>()});
            // the summary must be what the plain re-execution says
            let summary = pair_plain::<N>(op, wa, wb).err().unwrap_or_else(|| m.clone());
            fams.report(run, OPS[op].to_string(), Violation::new(sig, format!("Bitset<{N}>: {summary}"), replay));
        }
    }
    // one pair written out
    if k >= 2 {
        let (i, j) = (k - 1, k / 2);
        if let Ok(Ok(w)) = catch(|| pair_case::<N>(2, &build::<N>(&pats[i]), &pats[i], &build::<N>(&pats[j]), &pats[j])) {
            run.sample(json!({"N": N, "a": hex(&pats[i]), "b": hex(&pats[j]), "a ^ b (observed through test)": hex(&w)}));
        }
    }
    run.cov(&format!("N={N}"), Value::Object(ev));
}

// ---------------------------------------------------------------------------------------------
// plain re-execution

fn parse_words(v: &Value) -> Vec<u64> {
    v.as_array()
        .map(|a| a.iter().map(|x| u64::from_str_radix(x.as_str().unwrap_or("").trim_start_matches("0x"), 16).unwrap_or_else(|_| bad_replay())).collect())
        .unwrap_or_else(|| bad_replay())
}

fn bad_replay<T>() -> T {
    eprintln!("replay: malformed replay value");
    std::process::exit(2)
}

fn confirm_n<const N: usize>(v: &Value) -> Result<(), String> {
    if v["kind"] == "build" {
        let wa = parse_words(&v["a"]);
        if wa.len() != N {
            bad_replay::<()>();
        }
        return build_checked::<N>(&wa).map(|_| ()).map_err(|m| format!("Bitset<{N}>: {m}"));
    }
    if v["kind"] == "pair" {
        let op = OPS.iter().position(|o| v["op"] == *o).unwrap_or_else(|| bad_replay());
        let (wa, wb) = (parse_words(&v["a"]), parse_words(&v["b"]));
        if wa.len() != N || wb.len() != N {
            bad_replay::<()>();
        }
        return pair_plain::<N>(op, &wa, &wb).map_err(|m| format!("Bitset<{N}>: {m}"));
    }
    let hist: Vec<Value> = v["history"].as_array().cloned().unwrap_or_else(|| bad_replay());
    let sys = Sys::<N>::named(v["alphabet"].as_str().unwrap_or("boundary"));
    replay_history(&sys, &hist).map_err(|m| format!("Bitset<{N}> after {}: {m}", serde_json::to_string(&hist).unwrap()))
}

fn confirm(v: &Value) -> Result<(), String> {
    match v["n"].as_u64() {
        Some(1) => confirm_n::<1>(v),
        Some(2) => confirm_n::<2>(v),
        Some(3) => confirm_n::<3>(v),
        Some(10) => confirm_n::<10>(v),
        _ => bad_replay(),
    }
}

fn watchdog(prop: String) {
    std::thread::spawn(move || {
        let (mut last, mut stalled) = (u64::MAX, 0u64);
        loop {
            std::thread::sleep(std::time::Duration::from_secs(5));
            let p = PROGRESS.load(Ordering::Relaxed);
            if p != last {
                last = p;
                stalled = 0;
            } else {
                stalled += 5;
                if stalled >= 120 {
                    let msg = format!(
                        "MACHINERY-FAILURE property={prop} engine=bitset no call into the code under test returned for {stalled} s: a bitset operation (most likely iter_bits().next()) does not terminate; no verdict"
                    );
                    println!("{msg}");
                    eprintln!("{msg}");
                    std::process::exit(2);
                }
            }
        }
    });
}

fn main() {
    let args = Args::parse();
    quiet_panics();
    watchdog(args.prop.clone());
    if args.replay.is_some() {
        Run::replay_main(&args, &confirm);
    }
    let mut run = Run::new(&args, "bitset", "model_checking");
    let mut fams = Fams { seen: BTreeSet::new() };
    let mut tot = Totals { all_closed: true, ..Default::default() };
    let thorough = args.tier == Tier::Thorough;
    let wall_cap = args.tier.pick(25.0, 500.0);

    run_n::<1>(&mut run, &mut fams, &mut tot, true, args.tier.pick(2, 3), wall_cap);
    run_n::<2>(&mut run, &mut fams, &mut tot, true, 2, wall_cap);
    run_n::<3>(&mut run, &mut fams, &mut tot, true, args.tier.pick(1, 2), wall_cap);
    // N = 10: closure and operator pairs only in the thorough tier; the depth-1 sweep over all 640
    // indices (which includes `!new()`, 640 members) runs in both
    run_n::<10>(&mut run, &mut fams, &mut tot, thorough, 1, wall_cap);

    run.cov("capacities_closure", if thorough { json!([1, 2, 3, 10]) } else { json!([1, 2, 3]) });
    run.cov("capacities_bounded_sweep", json!([1, 2, 3, 10]));
    run.cov("states", tot.states);
    run.cov("transitions", tot.transitions);
    run.cov("traces_validated_against_impl", tot.transitions);
    run.cov("bounded_sweep_states", tot.sweep_states);
    run.cov("bounded_sweep_transitions", tot.sweep_transitions);
    run.cov("binary_operator_ordered_pairs", tot.pairs);
    run.cov("binary_operator_evaluations", tot.pair_evals);
    run.cov("exhaustive", tot.all_closed && !run.has_violations());
    run.cov("exhaustive_scope", "the closures over the boundary alphabet P_N (every capacity listed) and the operator pairs over the stated operands; the full-alphabet sweep is complete only to its depth bound");
    run.cov("initial_words", json!(INIT_WORDS.iter().map(|w| format!("{w:#x}")).collect::<Vec<_>>()));
    run.cov(
        "rule",
        "per capacity N: closure BFS over the real Bitset<N> from new(), default(), from_u64(w) (six words) under set/remove/flip at every position of \
         P_N = {0,1,31,62,63,64,65,127,128,64N-2,64N-1} below 64N, clear, !x, clone-and-replace, until no new state appears; after every transition \
         test(i) for every i < 64N, count, iter_bits (exact list, at most 64N+1 items pulled), == / != against a bitset rebuilt by set() and against \
         one-bit neighbours at every position of P_N, Display and Debug are compared with a Vec<bool> model; state identity = model bits + Display \
         rendering (no field dropped). Then & | ^ and &= |= ^= on all ordered pairs (self-pairs included) of the first min(states,1500) patterns in \
         BFS order, operands rebuilt from the pattern by set(); results and operands read back through test(i) for every i. The full-alphabet sweep \
         (every index 0..64N) is depth-bounded and reported separately.",
    );
    run.assume("Display of a Bitset together with test(i) for every i < 64N exposes its complete state (the struct has the single field `data`); state identity uses the model bits plus the Display rendering");
    run.assume("histories over positions outside P_N are covered only to the stated depth of the full-alphabet sweep; capacities other than those listed are not explored");
    run.assume("a call into the library that never returns cannot be decided without a clock: a watchdog turns a 120 s stall into exit 2 (machinery), never into a verdict");
    run.finish(&confirm)
}
