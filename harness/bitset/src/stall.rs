//! Calls into the library that do not return.
//!
//! Every entry point of the engine into the code under test runs inside a `section` that says, in a form a
//! replay can re-execute, what the calling thread is doing (`Pending`, refined by a `detail` word that the
//! section updates as it goes).  Nothing is moved to another thread: the call runs where the history ran.
//! An observer (the monitor thread of an exploration; `confirm` for its replay thread) looks at the slots
//! every `TICK`; a thread that is found at the SAME point (the same `detail`: no judged call has returned
//! in between) of the same section instance `TIMEOUT_TICKS` times in a row is stuck in a call that does not
//! terminate.  The longest WHOLE section of a healthy run is measured and reported (tens of milliseconds on
//! an idle machine, and a section is up to thousands of judged calls, against a timeout of ten seconds for
//! one call).  Counting observations instead of reading a clock keeps a stopped process from looking like
//! a stuck call: the observer is stopped with it.

use std::cell::{Cell, RefCell};
use std::collections::HashMap;
use std::sync::atomic::{AtomicBool, AtomicU64, Ordering};
use std::sync::{Arc, Mutex};
use std::time::{Duration, Instant};

use crate::Pending;

pub const TICK: Duration = Duration::from_millis(250);
pub const TIMEOUT_TICKS: u32 = 40;

/// "10 s (40 observations 250 ms apart)"
pub fn timeout_text() -> String {
    format!("{} s ({TIMEOUT_TICKS} observations {} ms apart)", (TICK * TIMEOUT_TICKS).as_secs(), TICK.as_millis())
}

pub struct Slot {
    /// odd while the owning thread is inside a section; every entry and every exit adds one
    seq: AtomicU64,
    detail: AtomicU64,
    what: Mutex<Option<Pending>>,
    /// the slot of a replay thread: judged by `confirm`, not by the monitor
    replay: AtomicBool,
}

impl Slot {
    pub fn new(replay: bool) -> Arc<Slot> {
        Arc::new(Slot { seq: AtomicU64::new(0), detail: AtomicU64::new(0), what: Mutex::new(None), replay: AtomicBool::new(replay) })
    }

    /// what the thread is stuck in (meaningful once `Watch::observe` has reached the timeout)
    pub fn pending(&self) -> Option<(Pending, u64)> {
        let p = self.what.lock().unwrap_or_else(|e| e.into_inner()).clone();
        p.map(|p| (p, self.detail.load(Ordering::Relaxed)))
    }
}

static REGISTRY: Mutex<Vec<Arc<Slot>>> = Mutex::new(Vec::new());
static SECTIONS: AtomicU64 = AtomicU64::new(0);
static LONGEST_NS: AtomicU64 = AtomicU64::new(0);

thread_local! {
    static MINE: RefCell<Option<Arc<Slot>>> = const { RefCell::new(None) };
    static DEPTH: Cell<u32> = const { Cell::new(0) };
}

fn mine() -> Arc<Slot> {
    MINE.with(|m| {
        m.borrow_mut()
            .get_or_insert_with(|| {
                let s = Slot::new(false);
                REGISTRY.lock().unwrap_or_else(|e| e.into_inner()).push(s.clone());
                s
            })
            .clone()
    })
}

/// Make `slot` the calling thread's slot (a replay thread, before it does anything else).
pub fn install(slot: Arc<Slot>) {
    MINE.with(|m| *m.borrow_mut() = Some(slot));
}

struct Leave(Arc<Slot>, Instant);

impl Drop for Leave {
    fn drop(&mut self) {
        DEPTH.with(|d| d.set(0));
        self.0.seq.fetch_add(1, Ordering::Release);
        LONGEST_NS.fetch_max(self.1.elapsed().as_nanos() as u64, Ordering::Relaxed);
    }
}

/// Run `f` as one section.  A section entered inside another one belongs to the outer one.
pub fn section<R>(what: impl FnOnce() -> Pending, f: impl FnOnce() -> R) -> R {
    if DEPTH.with(|d| d.replace(1)) != 0 {
        return f();
    }
    let slot = mine();
    *slot.what.lock().unwrap_or_else(|e| e.into_inner()) = Some(what());
    slot.detail.store(0, Ordering::Relaxed);
    slot.seq.fetch_add(1, Ordering::Release);
    SECTIONS.fetch_add(1, Ordering::Relaxed);
    let _leave = Leave(slot, Instant::now());
    f()
}

/// Where inside the current section the thread is (cheap: called before every judged call).
pub fn detail(d: u64) {
    MINE.with(|m| {
        if let Some(s) = m.borrow().as_ref() {
            s.detail.store(d, Ordering::Relaxed)
        }
    });
}

/// (sections run, the longest one in milliseconds)
pub fn statistics() -> (u64, f64) {
    (SECTIONS.load(Ordering::Relaxed), LONGEST_NS.load(Ordering::Relaxed) as f64 / 1e6)
}

/// The observer's memory: per slot, the section instance and the point inside it seen last, and how often in a row.
#[derive(Default)]
pub struct Watch {
    seen: HashMap<usize, (u64, u64, u32)>,
}

impl Watch {
    /// One observation of `slot`: how many observations in a row (this one included) found the thread at
    /// the same point of the same section instance (0: not inside a section, or it has moved since last time).
    pub fn observe(&mut self, slot: &Arc<Slot>) -> u32 {
        let (seq, detail) = (slot.seq.load(Ordering::Acquire), slot.detail.load(Ordering::Relaxed));
        let e = self.seen.entry(Arc::as_ptr(slot) as usize).or_insert((seq, detail, 0));
        if seq % 2 == 1 && (e.0, e.1) == (seq, detail) {
            e.2 += 1;
        } else {
            *e = (seq, detail, 0);
        }
        e.2
    }

    /// One observation of every worker slot: those stuck for `ticks` observations or more.
    pub fn observe_workers(&mut self, ticks: u32) -> Vec<Arc<Slot>> {
        let slots: Vec<Arc<Slot>> = REGISTRY.lock().unwrap_or_else(|e| e.into_inner()).iter().filter(|s| !s.replay.load(Ordering::Relaxed)).cloned().collect();
        slots.into_iter().filter(|s| self.observe(s) >= ticks).collect()
    }
}
