//! Float range families: `float_range_hits_end` / `float_range_other` (finite length) and
//! `float_range_length_overflow` (end - start overflows f64).

use rlib_rand::randomable::Randomable;
use vcore::*;

/// Boundary values, simplest first.
pub fn grid() -> Vec<f64> {
    let tiny = f64::from_bits(1); // smallest subnormal
    let p53 = 9007199254740992.0; // 2^53
    vec![
        0.0,
        -0.0,
        1.0,
        -1.0,
        10.0,
        15.0,
        -10.0,
        -15.0,
        tiny,
        -tiny,
        f64::MIN_POSITIVE,
        -f64::MIN_POSITIVE,
        p53,
        -p53,
        1e300,
        -1e300,
        1e308,
        -1e308,
        f64::MAX,
        -f64::MAX,
    ]
}

/// Raw alphabet for floats (ascending).
pub fn raws() -> Vec<u64> {
    let mut s: Vec<u128> = vec![0, 1, 1 << 10];
    for k in 0..64u32 {
        let p = 1u128 << k;
        s.push(p);
        // 2^64 - 2^k and neighbours
        let q = (1u128 << 64) - p;
        s.extend([q - 1, q, q + 1]);
    }
    for p in [11u32, 53, 63] {
        let p = 1u128 << p;
        s.extend([p - 1, p, p + 1]);
    }
    let top = 1u128 << 64;
    for j in 1..=(1u128 << 11) {
        s.push(top - j);
    }
    let mut v: Vec<u64> = s.into_iter().filter(|&x| x < top).map(|x| x as u64).collect();
    v.sort_unstable();
    v.dedup();
    v
}

#[derive(Clone, Copy, PartialEq, Eq, Debug)]
pub enum Fam {
    HitsEnd,
    Other,
    Overflow,
}

impl Fam {
    pub fn name(self) -> &'static str {
        match self {
            Fam::HitsEnd => "float_range_hits_end",
            Fam::Other => "float_range_other",
            Fam::Overflow => "float_range_length_overflow",
        }
    }
}

/// One draw.  Ok(x) if start <= x < end (hence finite), otherwise the family and what was observed.
pub fn check_one(start: f64, end: f64, raw: u64) -> Result<f64, (Fam, String)> {
    let overflow = !(end - start).is_finite();
    match catch(|| (start..end).gen_from_u64(raw)) {
        Err(p) => Err((if overflow { Fam::Overflow } else { Fam::Other }, format!("panicked: {p}"))),
        Ok(x) => {
            if start <= x && x < end {
                Ok(x)
            } else if overflow {
                Err((Fam::Overflow, format!("returned {x:?}")))
            } else if x >= end {
                Err((Fam::HitsEnd, format!("returned {x:?}")))
            } else {
                Err((Fam::Other, format!("returned {x:?}")))
            }
        }
    }
}

#[derive(Clone, Debug)]
pub struct Fail {
    pub fam: Fam,
    pub start: f64,
    pub end: f64,
    pub raw: u64,
    pub observed: String,
}

#[derive(Default)]
pub struct Report {
    pub pairs: u64,
    pub pairs_overflowing: u64,
    pub skipped_empty: u64,
    pub evals: u64,
    pub nontrivial: u64,
    pub top_raw_evals: u64,
    pub first: Vec<Fail>,                  // first failing case per family
    pub failing_pairs: [u64; 3],           // per family
    pub failing_evals: [u64; 3],
    pub sample: Option<Value>,
}

fn fam_idx(f: Fam) -> usize {
    match f {
        Fam::HitsEnd => 0,
        Fam::Other => 1,
        Fam::Overflow => 2,
    }
}

pub fn run() -> Report {
    let g = grid();
    let rs = raws();
    let mut rep = Report::default();
    // pairs simplest first: by the larger grid index, then the smaller
    let mut pairs: Vec<(usize, usize)> = vec![];
    for hi in 0..g.len() {
        for lo in 0..hi {
            pairs.push((lo, hi));
            pairs.push((hi, lo));
        }
    }
    for (i, j) in pairs {
        let (start, end) = (g[i], g[j]);
        if !(start < end) {
            rep.skipped_empty += 1; // empty range (the code asserts on it): outside the domain
            continue;
        }
        rep.pairs += 1;
        if !(end - start).is_finite() {
            rep.pairs_overflowing += 1;
        }
        let mut first_bits: Option<u64> = None;
        let mut distinct = false;
        let mut failed = [false; 3];
        for &raw in &rs {
            rep.evals += 1;
            if raw >= u64::MAX - 2047 {
                rep.top_raw_evals += 1;
            }
            match check_one(start, end, raw) {
                Ok(x) => {
                    match first_bits {
                        None => first_bits = Some(x.to_bits()),
                        Some(b) => distinct |= b != x.to_bits(),
                    }
                    if rep.sample.is_none() && raw == 1 << 63 && start == 10.0 {
                        rep.sample = Some(json!({"family": "float_range", "range": format!("{start:?}..{end:?}"), "raw": raw.to_string(), "observed": format!("{x:?}")}));
                    }
                }
                Err((fam, obs)) => {
                    let k = fam_idx(fam);
                    rep.failing_evals[k] += 1;
                    if !failed[k] {
                        failed[k] = true;
                        rep.failing_pairs[k] += 1;
                    }
                    if !rep.first.iter().any(|f| f.fam == fam) {
                        rep.first.push(Fail { fam, start, end, raw, observed: obs });
                    }
                }
            }
        }
        if distinct {
            rep.nontrivial += 1;
        }
    }
    rep
}

pub fn violation(f: &Fail, rep: &Report) -> Violation {
    let k = fam_idx(f.fam);
    let sig = format!("{}:{:?}..{:?}:raw={}", f.fam.name(), f.start, f.end, f.raw);
    let what = match f.fam {
        Fam::Overflow => "end - start overflows f64",
        _ => "finite length",
    };
    let sum = format!(
        "({:?}..{:?}).gen_from_u64({}) {}; expected start <= x < end ({}; {} grid ranges / {} draws fail in this family)",
        f.start, f.end, f.raw, f.observed, what, rep.failing_pairs[k], rep.failing_evals[k]
    );
    Violation::new(
        sig,
        sum,
        json!({"family": f.fam.name(), "start_bits": format!("{:016x}", f.start.to_bits()), "end_bits": format!("{:016x}", f.end.to_bits()),
               "start": format!("{:?}", f.start), "end": format!("{:?}", f.end), "raw": f.raw.to_string()}),
    )
}

pub fn confirm(v: &Value) -> Result<(), String> {
    let bits = |k: &str| u64::from_str_radix(v[k].as_str().unwrap_or("0"), 16).map(f64::from_bits).map_err(|e| e.to_string());
    let (start, end) = (bits("start_bits")?, bits("end_bits")?);
    let raw: u64 = v["raw"].as_str().unwrap_or("0").parse().map_err(|_| "bad raw")?;
    match check_one(start, end, raw) {
        Ok(_) => Ok(()),
        Err((fam, obs)) => Err(format!("[{}] ({start:?}..{end:?}).gen_from_u64({raw}) {obs}; expected start <= x < end", fam.name())),
    }
}
