//! Integer range families: `int_range_in_bounds`, `int_range_reachable`.
//!
//! `gen_from_u64` is called DIRECTLY with adversarial raw values; the reference is interval membership
//! computed in i128.

use rayon::prelude::*;
use rlib_rand::randomable::Randomable;
use rlib_rand::{Rand, Rng};
use std::collections::BTreeSet;
use vcore::*;

#[derive(Clone, Copy, PartialEq, Eq, PartialOrd, Ord, Debug)]
pub enum Form {
    Range,
    Incl,
    To,
    ToIncl,
    Full,
}

pub const FORMS: [Form; 5] = [Form::Range, Form::Incl, Form::To, Form::ToIncl, Form::Full];

impl Form {
    pub fn name(self) -> &'static str {
        match self {
            Form::Range => "range",
            Form::Incl => "incl",
            Form::To => "to",
            Form::ToIncl => "to_incl",
            Form::Full => "full",
        }
    }
    pub fn parse(s: &str) -> Option<Form> {
        FORMS.iter().copied().find(|f| f.name() == s)
    }
    pub fn show(self, a: i128, b: i128) -> String {
        match self {
            Form::Range => format!("{a}..{b}"),
            Form::Incl => format!("{a}..={b}"),
            Form::To => format!("..{b}"),
            Form::ToIncl => format!("..={b}"),
            Form::Full => "..".to_string(),
        }
    }
}

pub trait IntTy: Copy + Send + Sync + 'static {
    const NAME: &'static str;
    const BITS: u32;
    const SIGNED: bool;
    /// The REAL code: build the range of this type and call `gen_from_u64(raw)`.  May panic.
    fn gen(form: Form, a: i128, b: i128, raw: u64) -> i128;
    /// The REAL code: one draw `rng.next(range)` through the generator.  May panic.
    fn draw(rng: &mut Rng, form: Form, a: i128, b: i128) -> i128;

    fn min() -> i128 {
        if Self::SIGNED {
            -(1i128 << (Self::BITS - 1))
        } else {
            0
        }
    }
    fn max() -> i128 {
        if Self::SIGNED {
            (1i128 << (Self::BITS - 1)) - 1
        } else {
            (1i128 << Self::BITS) - 1
        }
    }
}

macro_rules! int_ty {
    ($t:ty, $name:expr, $signed:expr) => {
        impl IntTy for $t {
            const NAME: &'static str = $name;
            const BITS: u32 = <$t>::BITS;
            const SIGNED: bool = $signed;
            #[inline]
            fn gen(form: Form, a: i128, b: i128, raw: u64) -> i128 {
                let (a, b) = (a as $t, b as $t);
                let r: $t = match form {
                    Form::Range => (a..b).gen_from_u64(raw),
                    Form::Incl => (a..=b).gen_from_u64(raw),
                    Form::To => (..b).gen_from_u64(raw),
                    Form::ToIncl => (..=b).gen_from_u64(raw),
                    Form::Full => (..).gen_from_u64(raw),
                };
                r as i128
            }
            #[inline]
            fn draw(rng: &mut Rng, form: Form, a: i128, b: i128) -> i128 {
                let (a, b) = (a as $t, b as $t);
                let r: $t = match form {
                    Form::Range => rng.next(a..b),
                    Form::Incl => rng.next(a..=b),
                    Form::To => rng.next(..b),
                    Form::ToIncl => rng.next(..=b),
                    Form::Full => rng.next(..),
                };
                r as i128
            }
        }
    };
}
int_ty!(i8, "i8", true);
int_ty!(u8, "u8", false);
int_ty!(i16, "i16", true);
int_ty!(u16, "u16", false);
int_ty!(i32, "i32", true);
int_ty!(u32, "u32", false);
int_ty!(i64, "i64", true);
int_ty!(u64, "u64", false);
int_ty!(isize, "isize", true);
int_ty!(usize, "usize", false);

#[macro_export]
macro_rules! dispatch_ty {
    ($name:expr, $T:ident => $e:expr) => {
        match $name {
            "i8" => { type $T = i8; Some($e) }
            "u8" => { type $T = u8; Some($e) }
            "i16" => { type $T = i16; Some($e) }
            "u16" => { type $T = u16; Some($e) }
            "i32" => { type $T = i32; Some($e) }
            "u32" => { type $T = u32; Some($e) }
            "i64" => { type $T = i64; Some($e) }
            "u64" => { type $T = u64; Some($e) }
            "isize" => { type $T = isize; Some($e) }
            "usize" => { type $T = usize; Some($e) }
            _ => None,
        }
    };
}

// ---------------------------------------------------------------------------------------------
// reference

/// Is the range inside the domain of the property?  Empty ranges are excluded; `..b` / `..=b` are
/// read the way the library (and its own tests) read them, as `0..b` / `0..=b`, so a non-positive
/// (resp. negative) end is an empty range.
pub fn in_domain<T: IntTy>(form: Form, a: i128, b: i128) -> bool {
    match form {
        Form::Range => a < b,
        Form::Incl => a <= b,
        Form::To => b > 0,
        Form::ToIncl => b >= 0,
        Form::Full => true,
    }
}

/// The WRITTEN range as an inclusive interval [lo, hi] (for `..b`: MIN..b).
pub fn written<T: IntTy>(form: Form, a: i128, b: i128) -> (i128, i128) {
    match form {
        Form::Range => (a, b - 1),
        Form::Incl => (a, b),
        Form::To => (T::min(), b - 1),
        Form::ToIncl => (T::min(), b),
        Form::Full => (T::min(), T::max()),
    }
}

/// The interval every value of which must be reachable when it is small (for `..b` only 0..b is
/// demanded: it is contained in both readings of the form).
pub fn must_reach<T: IntTy>(form: Form, a: i128, b: i128) -> (i128, i128) {
    match form {
        Form::To => (0, b - 1),
        Form::ToIncl => (0, b),
        _ => written::<T>(form, a, b),
    }
}

pub const SMALL: u128 = 256;

/// Raw alphabet R(len) of DESIGN §4 C14 (+ every power of two), and for small len additionally
/// ceil(k*2^64/len), k < len, so that reachability does not presuppose a remainder mapping.
pub fn alphabet(len: u128) -> Vec<u64> {
    let top: u128 = u64::MAX as u128;
    let mut s: Vec<u128> = Vec::with_capacity(1400);
    let c = (2 * len).min(512);
    for r in 0..=c {
        s.push(r);
    }
    for j in 0..=c {
        s.push(top - j);
    }
    for m in [len, 2 * len] {
        s.extend([m.wrapping_sub(1), m, m + 1]);
    }
    for p in [8u32, 16, 32, 53, 63, 64] {
        let pw = 1u128 << p;
        s.extend([pw - 1, pw, pw + 1]);
        let k = pw / len;
        for m in [k * len, (k + 1) * len] {
            s.extend([m.wrapping_sub(1), m, m + 1]);
        }
    }
    for k in 0..64 {
        s.push(1u128 << k);
    }
    if len <= SMALL {
        for k in 0..len {
            s.push(((k << 64) + len - 1) / len);
        }
    }
    let mut v: Vec<u64> = s.into_iter().filter(|&x| x <= top).map(|x| x as u64).collect();
    v.sort_unstable();
    v.dedup();
    v
}

pub fn range_len<T: IntTy>(form: Form, a: i128, b: i128) -> u128 {
    let (lo, hi) = must_reach::<T>(form, a, b);
    (hi - lo + 1) as u128
}

// ---------------------------------------------------------------------------------------------
// one case

#[derive(Clone, Debug)]
pub struct BoundsFail {
    pub form: Form,
    pub a: i128,
    pub b: i128,
    pub raw: u64,
    pub observed: String,
}

#[derive(Clone, Debug)]
pub struct ReachFail {
    pub form: Form,
    pub a: i128,
    pub b: i128,
    pub value: i128,
}

#[derive(Default, Clone)]
pub struct Summary {
    pub cases: u64,
    pub evals: u64,
    pub nontrivial: u64,
    pub small_cases: u64,
    pub reach_required: u64,
    pub reach_low_witnessed: u64,
    pub failing_bounds: u64,
    pub failing_reach: u64,
    pub first_bounds: Option<(usize, BoundsFail)>,
    pub first_reach: Option<(usize, ReachFail)>,
    pub saw_top_raw: bool,
    pub saw_negative: bool,
    pub incl_min_start: u64,
    pub incl_nonmin_start: u64,
    pub incl_full: u64,
}

impl Summary {
    pub fn merge(mut self, o: Summary) -> Summary {
        self.cases += o.cases;
        self.evals += o.evals;
        self.nontrivial += o.nontrivial;
        self.small_cases += o.small_cases;
        self.reach_required += o.reach_required;
        self.reach_low_witnessed += o.reach_low_witnessed;
        self.failing_bounds += o.failing_bounds;
        self.failing_reach += o.failing_reach;
        self.saw_top_raw |= o.saw_top_raw;
        self.saw_negative |= o.saw_negative;
        self.incl_min_start += o.incl_min_start;
        self.incl_nonmin_start += o.incl_nonmin_start;
        self.incl_full += o.incl_full;
        self.first_bounds = match (self.first_bounds.take(), o.first_bounds) {
            (Some(x), Some(y)) => Some(if x.0 <= y.0 { x } else { y }),
            (x, y) => x.or(y),
        };
        self.first_reach = match (self.first_reach.take(), o.first_reach) {
            (Some(x), Some(y)) => Some(if x.0 <= y.0 { x } else { y }),
            (x, y) => x.or(y),
        };
        self
    }
}

/// Check one draw against the written range.
pub fn check_one<T: IntTy>(form: Form, a: i128, b: i128, raw: u64) -> Result<i128, String> {
    let (lo, hi) = written::<T>(form, a, b);
    match catch(|| T::gen(form, a, b, raw)) {
        Err(p) => Err(format!("panicked: {p}")),
        Ok(v) if v < lo || v > hi => Err(format!("returned {v}")),
        Ok(v) => Ok(v),
    }
}

fn eval_case<T: IntTy>(idx: usize, form: Form, a: i128, b: i128) -> Summary {
    let mut s = Summary { cases: 1, ..Default::default() };
    let (lo, hi) = written::<T>(form, a, b);
    let (rlo, rhi) = must_reach::<T>(form, a, b);
    let len = (rhi - rlo + 1) as u128;
    let small = len <= SMALL;
    let alpha = alphabet(len);
    s.evals = alpha.len() as u64;
    s.saw_top_raw = alpha.last().map_or(false, |&r| r >= 1 << 63);
    if form == Form::Incl {
        if a == T::min() && b == T::max() {
            s.incl_full = 1;
        } else if a == T::min() {
            s.incl_min_start = 1;
        } else {
            s.incl_nonmin_start = 1;
        }
    }
    let mut hit = vec![false; if small { len as usize } else { 0 }];
    let mut hit_low = vec![false; if small { len as usize } else { 0 }];
    // fast path: the whole alphabet inside one catch
    let fast = catch(|| {
        let mut first_bad: Option<(u64, i128)> = None;
        let mut first_v: Option<i128> = None;
        let mut distinct = false;
        let mut neg = false;
        for &raw in &alpha {
            let v = T::gen(form, a, b, raw);
            if v < lo || v > hi {
                if first_bad.is_none() {
                    first_bad = Some((raw, v));
                }
                continue;
            }
            neg |= v < 0;
            match first_v {
                None => first_v = Some(v),
                Some(f) => distinct |= f != v,
            }
            if small && v >= rlo && v <= rhi {
                hit[(v - rlo) as usize] = true;
                if (raw as u128) < len {
                    hit_low[(v - rlo) as usize] = true;
                }
            }
        }
        (first_bad, distinct, neg)
    });
    match fast {
        Ok((bad, distinct, neg)) => {
            s.saw_negative = neg;
            if distinct {
                s.nontrivial = 1;
            }
            if let Some((raw, v)) = bad {
                s.failing_bounds = 1;
                s.first_bounds = Some((idx, BoundsFail { form, a, b, raw, observed: format!("returned {v}") }));
            }
        }
        Err(_) => {
            // slow path: find the first raw (ascending) that panics or leaves the range
            for h in hit.iter_mut().chain(hit_low.iter_mut()) {
                *h = false;
            }
            for &raw in &alpha {
                match check_one::<T>(form, a, b, raw) {
                    Ok(v) => {
                        if small && v >= rlo && v <= rhi {
                            hit[(v - rlo) as usize] = true;
                        }
                    }
                    Err(obs) => {
                        if s.first_bounds.is_none() {
                            s.failing_bounds = 1;
                            s.first_bounds = Some((idx, BoundsFail { form, a, b, raw, observed: obs }));
                        }
                    }
                }
            }
        }
    }
    if small {
        s.small_cases = 1;
        s.reach_required = len as u64;
        s.reach_low_witnessed = hit_low.iter().filter(|h| **h).count() as u64;
        if let Some(i) = hit.iter().position(|h| !h) {
            s.failing_reach = 1;
            s.first_reach = Some((idx, ReachFail { form, a, b, value: rlo + i as i128 }));
        }
    }
    s
}

// ---------------------------------------------------------------------------------------------
// case lists (simplest first)

fn rank(v: i128) -> (u128, bool) {
    (v.unsigned_abs(), v < 0)
}

/// Boundary values of a wide type.
fn boundary_values<T: IntTy>() -> Vec<i128> {
    let (mn, mx) = (T::min(), T::max());
    let mut s: BTreeSet<((u128, bool), i128)> = BTreeSet::new();
    let mut put = |v: i128| {
        if v >= mn && v <= mx {
            s.insert((rank(v), v));
        }
    };
    for d in [0i128, 1, 2, 255, 256] {
        put(mn + d);
        put(mx - d);
    }
    for v in -3..=3 {
        put(v);
    }
    for v in [10i128, 100] {
        put(v);
        put(-v);
    }
    for k in [7u32, 8, 15, 16, 31, 32, 52, 53, 62, 63] {
        for d in [-1i128, 0, 1] {
            put((1i128 << k) + d);
            put(-((1i128 << k) + d));
        }
    }
    // positions relative to the type's own span: a quarter, half and three quarters of the way from 0 to
    // MIN and to MAX (+-1), so that every type has ranges longer than half its span that touch neither
    // end, ranges of exactly half the span, and ranges from the middle to either end
    for e in [mn, mx] {
        for (num, den) in [(1i128, 4i128), (1, 2), (3, 4)] {
            for d in [-1i128, 0, 1] {
                put(e / den * num + d);
            }
        }
    }
    // round decimal bounds as a caller writes them: the largest power of ten of the type, half of it, 5x it
    let mut p10 = 1i128;
    while p10 * 10 <= mx {
        p10 *= 10;
    }
    for v in [p10 / 2, p10, 5 * p10] {
        put(v);
        put(-v);
    }
    s.into_iter().map(|x| x.1).collect()
}

fn boundary_lengths<T: IntTy>() -> Vec<u128> {
    let mut l: BTreeSet<u128> = BTreeSet::new();
    l.extend([1u128, 2, 3]);
    for k in 1..=T::BITS {
        for d in [-1i128, 0, 1] {
            let v = (1i128 << k) + d;
            if v >= 1 && v <= (1i128 << T::BITS) {
                l.insert(v as u128);
            }
        }
    }
    l.insert(T::max() as u128); // length MAX
    // lengths relative to the span 2^BITS of the type: three quarters of it (+-1) and the span less a few
    // values (half the span +-1, the span and the span - 1 are among the 2^k +- 1 above)
    let span = 1u128 << T::BITS;
    l.extend([span / 4 * 3 - 1, span / 4 * 3, span / 4 * 3 + 1]);
    l.extend([2u128, 3, 255, 256].iter().map(|d| span - d));
    l.into_iter().collect()
}

/// What the case list of one (type, form) contains of the long ranges: ranges of more than half the span
/// of the type, ranges touching MIN, touching MAX, and the longest range the form can denote
/// (MIN..MAX, MIN..=MAX, ..MAX, ..=MAX, ..).
#[derive(Default, Clone, Copy, Debug)]
pub struct LongRanges {
    pub over_half_span: u64,
    pub from_min: u64,
    pub to_max: u64,
    pub from_min_over_half_span: u64,
    pub to_max_over_half_span: u64,
    pub neither_end_over_half_span: u64,
    pub longest_of_the_form: bool,
}

pub fn long_ranges<T: IntTy>(form: Form, cs: &[(i128, i128)]) -> LongRanges {
    let (mn, mx) = (T::min(), T::max());
    let half = 1u128 << (T::BITS - 1);
    let mut r = LongRanges::default();
    for &(a, b) in cs {
        // the interval the draws of the library's reading of the form cover (`..b` = 0..b)
        let (lo, hi) = must_reach::<T>(form, a, b);
        let over = (hi - lo + 1) as u128 > half;
        // "touches MAX": the written end is MAX (for a..b and ..b that is the largest end there is)
        let (at_min, at_max) = (lo == mn, form == Form::Full || b == mx);
        r.over_half_span += over as u64;
        r.from_min += at_min as u64;
        r.to_max += at_max as u64;
        r.from_min_over_half_span += (over && at_min) as u64;
        r.to_max_over_half_span += (over && at_max) as u64;
        r.neither_end_over_half_span += (over && !at_min && !at_max) as u64;
        r.longest_of_the_form |= match form {
            Form::Range => a == mn && b == mx,
            Form::Incl => a == mn && b == mx,
            Form::To | Form::ToIncl => b == mx,
            Form::Full => true,
        };
    }
    r
}

impl LongRanges {
    /// Does the list contain what every (type, form) must contain?  A `..b` / `..=b` of a signed type
    /// covers at most half the span and cannot start at MIN in the library's reading; `..` is one range.
    pub fn complete<T: IntTy>(&self, form: Form) -> bool {
        let two_ended = matches!(form, Form::Range | Form::Incl);
        let to_unsigned = matches!(form, Form::To | Form::ToIncl) && !T::SIGNED;
        self.longest_of_the_form
            && self.to_max >= 1
            && (!(two_ended || to_unsigned) || (self.over_half_span >= 1 && self.to_max_over_half_span >= 1))
            && (!two_ended || (self.from_min >= 1 && self.from_min_over_half_span >= 1 && self.neither_end_over_half_span >= 1))
    }
}

/// In-domain cases of one (type, form), simplest first; the second value counts the enumerated
/// out-of-domain (empty) ranges that were skipped.
pub fn cases<T: IntTy>(form: Form, exhaustive: bool) -> (Vec<(i128, i128)>, Vec<(i128, i128)>) {
    let (mn, mx) = (T::min(), T::max());
    let mut keyed: BTreeSet<(u128, (u128, bool), i128, i128)> = BTreeSet::new();
    let mut skipped: Vec<(i128, i128)> = vec![];
    let put = |a: i128, b: i128, keyed: &mut BTreeSet<_>, skipped: &mut Vec<(i128, i128)>| {
        if a < mn || a > mx || b < mn || b > mx {
            return;
        }
        if in_domain::<T>(form, a, b) {
            keyed.insert((range_len::<T>(form, a, b), rank(a), a, b));
        } else {
            skipped.push((a, b));
        }
    };
    match form {
        Form::Full => {
            keyed.insert((1u128 << T::BITS, rank(0), 0, 0));
        }
        Form::To | Form::ToIncl => {
            if exhaustive {
                for b in mn..=mx {
                    put(0, b, &mut keyed, &mut skipped);
                }
            } else {
                for b in boundary_values::<T>() {
                    put(0, b, &mut keyed, &mut skipped);
                }
                for l in boundary_lengths::<T>() {
                    put(0, l as i128, &mut keyed, &mut skipped);
                    put(0, l as i128 - 1, &mut keyed, &mut skipped);
                }
            }
        }
        Form::Range | Form::Incl => {
            if exhaustive {
                for a in mn..=mx {
                    for b in mn..=mx {
                        put(a, b, &mut keyed, &mut skipped);
                    }
                }
            } else {
                let bv = boundary_values::<T>();
                for &a in &bv {
                    for &b in &bv {
                        put(a, b, &mut keyed, &mut skipped);
                    }
                    for l in boundary_lengths::<T>() {
                        let b = a + l as i128 - if form == Form::Incl { 1 } else { 0 };
                        put(a, b, &mut keyed, &mut skipped);
                        // the same length ending at a
                        let a2 = a - l as i128 + if form == Form::Incl { 1 } else { 0 };
                        put(a2, a, &mut keyed, &mut skipped);
                    }
                }
            }
        }
    }
    skipped.sort();
    skipped.dedup();
    (keyed.into_iter().map(|k| (k.2, k.3)).collect(), skipped)
}

pub struct TypeFormReport {
    pub ty: &'static str,
    pub form: Form,
    pub summary: Summary,
    pub skipped: u64,
    pub skipped_panicked: u64,
    pub long: LongRanges,
    pub long_complete: bool,
    pub sample: Value,
}

pub fn run_type_form<T: IntTy>(form: Form, exhaustive: bool) -> TypeFormReport {
    let (cs, skipped) = cases::<T>(form, exhaustive);
    let summary = cs
        .par_iter()
        .enumerate()
        .map(|(i, &(a, b))| eval_case::<T>(i, form, a, b))
        .reduce(Summary::default, Summary::merge);
    // diagnostic only: what does the code do with the empty ranges that were skipped?
    let skipped_panicked = skipped.iter().filter(|&&(a, b)| catch(|| T::gen(form, a, b, 0)).is_err()).count() as u64;
    // one sample: the last (largest) case with a raw from the top of the u64 range
    let &(a, b) = cs.last().unwrap();
    let raw = u64::MAX - 1;
    let sample = json!({"family": "int_range_in_bounds", "type": T::NAME, "range": form.show(a, b), "raw": raw.to_string(),
        "observed": format!("{:?}", catch(|| T::gen(form, a, b, raw)))});
    let long = long_ranges::<T>(form, &cs);
    TypeFormReport { ty: T::NAME, form, summary, skipped: skipped.len() as u64, skipped_panicked, long, long_complete: long.complete::<T>(form), sample }
}

/// `exh_pairs`: every (start,end) for a..b and a..=b; `exh_to`: every end for ..b and ..=b.
pub fn run_type<T: IntTy>(exh_pairs: bool, exh_to: bool) -> Vec<TypeFormReport> {
    FORMS
        .iter()
        .map(|&f| run_type_form::<T>(f, if matches!(f, Form::To | Form::ToIncl) { exh_to } else { exh_pairs }))
        .collect()
}

// ---------------------------------------------------------------------------------------------
// confirm

fn p128(v: &Value) -> i128 {
    v.as_str().and_then(|s| s.parse::<i128>().ok()).unwrap_or(0)
}

pub fn confirm_bounds(v: &Value) -> Result<(), String> {
    let ty = v["type"].as_str().unwrap_or("");
    let form = Form::parse(v["form"].as_str().unwrap_or("")).ok_or("bad form")?;
    let (a, b, raw) = (p128(&v["a"]), p128(&v["b"]), p128(&v["raw"]) as u64);
    let r = dispatch_ty!(ty, T => check_one::<T>(form, a, b, raw)).ok_or("bad type")?;
    match r {
        Ok(_) => Ok(()),
        Err(obs) => Err(format!("{ty} ({}).gen_from_u64({raw}) {obs}; expected a value inside the range", form.show(a, b))),
    }
}

pub fn confirm_reach(v: &Value) -> Result<(), String> {
    let ty = v["type"].as_str().unwrap_or("");
    let form = Form::parse(v["form"].as_str().unwrap_or("")).ok_or("bad form")?;
    let (a, b, value) = (p128(&v["a"]), p128(&v["b"]), p128(&v["value"]));
    let r = dispatch_ty!(ty, T => {
        let (lo, hi) = must_reach::<T>(form, a, b);
        let alpha = alphabet((hi - lo + 1) as u128);
        (alpha.len(), alpha.iter().any(|&raw| catch(|| T::gen(form, a, b, raw)) == Ok(value)))
    })
    .ok_or("bad type")?;
    if r.1 {
        Ok(())
    } else {
        Err(format!(
            "{ty} ({}): the value {value} is produced by none of the {} raw values of the alphabet (all of 0..=2*len, ceil(k*2^64/len) for every k, the top of the u64 range, neighbours of multiples of len)",
            form.show(a, b),
            r.0
        ))
    }
}

pub fn bounds_violation(ty: &str, f: &BoundsFail, failing_cases: u64) -> Violation {
    let sig = format!("int_range_in_bounds:{ty}:{}:raw={}", f.form.show(f.a, f.b), f.raw);
    let sum = format!(
        "{ty} ({}).gen_from_u64({}) {}; expected a value inside the range ({} ranges of this type and form fail)",
        f.form.show(f.a, f.b),
        f.raw,
        f.observed,
        failing_cases
    );
    Violation::new(sig, sum, json!({"family": "int_range_in_bounds", "type": ty, "form": f.form.name(), "a": f.a.to_string(), "b": f.b.to_string(), "raw": f.raw.to_string()}))
}

pub fn reach_violation(ty: &str, f: &ReachFail, failing_cases: u64) -> Violation {
    let sig = format!("int_range_reachable:{ty}:{}:value={}", f.form.show(f.a, f.b), f.value);
    let sum = format!(
        "{ty} ({}): the value {} is not produced by any raw value of the alphabet ({} small ranges of this type and form have an unreachable value)",
        f.form.show(f.a, f.b),
        f.value,
        failing_cases
    );
    Violation::new(sig, sum, json!({"family": "int_range_reachable", "type": ty, "form": f.form.name(), "a": f.a.to_string(), "b": f.b.to_string(), "value": f.value.to_string()}))
}
