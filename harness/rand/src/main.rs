//! C14 — random ranges, determinism, shuffle (form I, level: exploration).
//!
//! Families (each reports its first / minimal failing case):
//!   int_range_in_bounds, int_range_reachable      — gen_from_u64 called directly, reference = interval membership in i128
//!   float_range_hits_end / float_range_other / float_range_length_overflow
//!   determinism
//!   shuffle_is_permutation, shuffle_reaches_all, shuffle_frequency
//!   small_range_not_periodic — every range form of every type over value sets of <= 2^16 values, incl. the
//!     full-width forms of the 8- and 16-bit types (+ low-bit machine diagnostic, evidence only)
//! Every seed-quantified family (determinism, shuffle_*, small_range_not_periodic) runs on a dense interval
//! [0, S) and on structured 64-bit seeds (single bits, small multipliers shifted to every position, masks,
//! patterns, top of u64: streams.rs "seed alphabets").
//! No oracle refers to the actual numbers of the stream.

mod floats;
mod ints;
mod streams;

use ints::IntTy;
use vcore::*;

fn confirm(v: &Value) -> Result<(), String> {
    match v["family"].as_str().unwrap_or("") {
        "int_range_in_bounds" => ints::confirm_bounds(v),
        "int_range_reachable" => ints::confirm_reach(v),
        "float_range_hits_end" | "float_range_other" | "float_range_length_overflow" => floats::confirm(v),
        "determinism" => streams::confirm_determinism(v),
        "shuffle_is_permutation" | "shuffle_reaches_all" | "shuffle_frequency" => streams::confirm_shuffle(v),
        "small_range_not_periodic" => streams::confirm_period(v),
        other => Err(format!("unknown family {other:?} in replay file")),
    }
}

/// Which shuffle families have already reported their first failing case.
#[derive(Default)]
struct ShuffleReported {
    not_a_permutation: bool,
    reach: bool,
    frequency: bool,
}

/// The verdicts of the shuffle families over one seed family: the first shuffle that is not a
/// rearrangement, the first unreached rearrangement of a slice of length <= 6 and, if `frequency`, the first
/// count outside [1/2, 2] x mean.  Returns the per-length evidence rows and the number of distinct
/// rearrangements seen.
fn shuffle_family(run: &mut Run, fam: &streams::SeedFamily, sh: &streams::ShuffleAcc, frequency: bool, reported: &mut ShuffleReported) -> (Vec<Value>, u64) {
    let seeds = fam.len();
    let tag = if fam.is_dense() { "" } else { "structured:" };
    let replay = |family: &str, len: usize, perm: &[u8]| {
        let mut v = fam.to_json();
        v["family"] = json!(family);
        v["len"] = json!(len);
        v["perm"] = json!(perm);
        v
    };
    if let (false, Some((_, len, seed, obs))) = (reported.not_a_permutation, &sh.first_bad) {
        reported.not_a_permutation = true;
        run.violation(Violation::new(
            format!("shuffle_is_permutation:len={len}:seed={seed}"),
            format!("shuffling 0..{len} with Rng::from_seed({seed}) {obs}; expected a rearrangement of the same elements"),
            json!({"family": "shuffle_is_permutation", "len": len, "seed": seed.to_string()}),
        ));
    }
    let mut rows = vec![];
    let mut distinct_perms = 0u64;
    for len in 2..=streams::MAX_COUNT_LEN {
        let c = &sh.counts[len];
        let total = c.len() as u64;
        let mean = seeds as f64 / total as f64;
        let reached = c.iter().filter(|&&x| x > 0).count() as u64;
        distinct_perms += reached;
        let (mn, mx) = (*c.iter().min().unwrap(), *c.iter().max().unwrap());
        let out_of_band = c.iter().filter(|&&x| (x as f64) < mean / 2.0 || (x as f64) > mean * 2.0).count() as u64;
        rows.push(json!({"len": len, "rearrangements": total, "reached": reached, "mean_count": mean, "min_count": mn, "max_count": mx, "counts_outside_half_to_double_mean": out_of_band}));
        if !reported.reach {
            if let Some(r) = c.iter().position(|&x| x == 0) {
                reported.reach = true;
                let perm = streams::perm_unrank(r, len);
                let ps: String = perm.iter().map(|d| d.to_string()).collect();
                run.violation(Violation::new(
                    format!("shuffle_reaches_all:{tag}len={len}:perm={ps}"),
                    format!("no seed in {} shuffles 0..{len} into {perm:?}: only {reached} of the {total} rearrangements are reached (mean count per rearrangement {mean:.1})", fam.describe()),
                    replay("shuffle_reaches_all", len, &perm),
                ));
            }
        }
        if frequency && !reported.frequency {
            if let Some(r) = c.iter().position(|&x| (x as f64) < mean / 2.0 || (x as f64) > mean * 2.0) {
                reported.frequency = true;
                let perm = streams::perm_unrank(r, len);
                let ps: String = perm.iter().map(|d| d.to_string()).collect();
                run.violation(Violation::new(
                    format!("shuffle_frequency:{tag}len={len}:perm={ps}"),
                    format!("{} of the seeds in {} shuffle 0..{len} into {perm:?}; the mean per rearrangement is {mean:.1}, allowed [{:.1}, {:.1}] ({out_of_band} of {total} counts are outside; min {mn}, max {mx})", c[r], fam.describe(), mean / 2.0, mean * 2.0),
                    replay("shuffle_frequency", len, &perm),
                ));
            }
        }
    }
    (rows, distinct_perms)
}

/// true iff this build traps integer overflow (the library is built with the same profile)
fn overflow_checks_on() -> bool {
    catch(|| std::hint::black_box(i32::MAX) + std::hint::black_box(1)).is_err()
}

fn main() {
    let args = Args::parse();
    quiet_panics();
    if args.replay.is_some() {
        Run::replay_main(&args, &confirm);
    }
    let mut run = Run::new(&args, "rand", "exploration");
    let tier = args.tier;
    let mut evaluations = 0u64;
    let mut nontrivial = 0u64;

    // ---------------------------------------------------------------- integer ranges
    let mut reports: Vec<ints::TypeFormReport> = vec![];
    // 8-bit types: every range of every form; 16-bit: every `..b` / `..=b` in the thorough tier
    let exh16 = tier.pick(false, true);
    reports.extend(ints::run_type::<i8>(true, true));
    reports.extend(ints::run_type::<u8>(true, true));
    reports.extend(ints::run_type::<i16>(false, exh16));
    reports.extend(ints::run_type::<u16>(false, exh16));
    reports.extend(ints::run_type::<i32>(false, false));
    reports.extend(ints::run_type::<u32>(false, false));
    reports.extend(ints::run_type::<i64>(false, false));
    reports.extend(ints::run_type::<u64>(false, false));
    reports.extend(ints::run_type::<isize>(false, false));
    reports.extend(ints::run_type::<usize>(false, false));
    let mut per = serde_json::Map::new();
    let mut tot = ints::Summary::default();
    let (mut skipped, mut skipped_panicked) = (0u64, 0u64);
    let mut bounds_reported = false;
    let mut reach_reported = false;
    let (mut long_total, mut long_incomplete) = (0u64, Vec::<String>::new());
    for r in &reports {
        let s = &r.summary;
        per.insert(
            format!("{}:{}", r.ty, r.form.name()),
            json!({"ranges": s.cases, "draws": s.evals, "ranges_with_2+_distinct_results": s.nontrivial, "small_ranges": s.small_cases,
                   "values_required_reachable": s.reach_required, "of_which_hit_by_raw_below_len": s.reach_low_witnessed,
                   "empty_ranges_skipped": r.skipped, "of_which_the_code_panics_on": r.skipped_panicked,
                   "ranges_out_of_bounds": s.failing_bounds, "ranges_with_unreachable_value": s.failing_reach,
                   "ranges_over_half_the_span": r.long.over_half_span, "ranges_from_MIN": r.long.from_min, "ranges_to_MAX": r.long.to_max,
                   "ranges_over_half_the_span_from_MIN_to_MAX_neither": [r.long.from_min_over_half_span, r.long.to_max_over_half_span, r.long.neither_end_over_half_span]}),
        );
        long_total += r.long.over_half_span;
        if !r.long_complete {
            long_incomplete.push(format!("{}:{}", r.ty, r.form.name()));
        }
        skipped += r.skipped;
        skipped_panicked += r.skipped_panicked;
        if let (false, Some((_, f))) = (bounds_reported, &s.first_bounds) {
            bounds_reported = true;
            run.violation(ints::bounds_violation(r.ty, f, s.failing_bounds));
        }
        if let (false, Some((_, f))) = (reach_reported, &s.first_reach) {
            reach_reported = true;
            run.violation(ints::reach_violation(r.ty, f, s.failing_reach));
        }
        tot = tot.merge(s.clone());
    }
    for r in reports.iter().filter(|r| (r.ty == "i8" && r.form == ints::Form::Incl) || (r.ty == "u64" && r.form == ints::Form::Full) || (r.ty == "i64" && r.form == ints::Form::Range)) {
        run.sample(r.sample.clone());
    }
    run.cov("int_per_type_and_form", Value::Object(per));
    run.cov("int_ranges", tot.cases);
    run.cov("int_draws", tot.evals);
    run.cov("int_ranges_nontrivial", tot.nontrivial);
    run.cov("int_small_ranges_checked_for_reachability", tot.small_cases);
    run.cov("int_values_required_reachable", tot.reach_required);
    run.cov("int_values_hit_by_raw_below_len", tot.reach_low_witnessed);
    run.cov("int_inclusive_ranges_starting_at_MIN", tot.incl_min_start);
    run.cov("int_inclusive_ranges_not_starting_at_MIN", tot.incl_nonmin_start);
    run.cov("int_inclusive_full_width_ranges", tot.incl_full);
    run.cov("int_ranges_over_half_the_span_of_their_type", long_total);
    run.cov("int_ranges_out_of_bounds", tot.failing_bounds);
    run.cov("int_ranges_with_unreachable_value", tot.failing_reach);
    run.cov("skipped_out_of_domain", skipped);
    run.cov("skipped_out_of_domain_on_which_the_code_panics", skipped_panicked);
    evaluations += tot.evals;
    nontrivial += tot.nontrivial;
    if tot.cases < 100_000 || !tot.saw_top_raw || !tot.saw_negative || tot.incl_min_start < 1000 || tot.incl_nonmin_start < 1000 || tot.incl_full != 10 || tot.small_cases < 100_000 {
        run.machinery_failure("integer range enumeration explored implausibly little (ranges, raw >= 2^63, negative results, the three RangeInclusive branches, small ranges)");
    }
    if !long_incomplete.is_empty() {
        run.machinery_failure(&format!("the integer range family lacks long ranges (over half the span of the type from MIN / to MAX / touching neither end, the longest range of the form) for {long_incomplete:?}"));
    }
    if tot.failing_bounds == 0 && tot.nontrivial * 10 < tot.cases * 9 {
        // ranges of length 1 are the only ones that may give a single value
        run.machinery_failure("fewer than 90% of the integer ranges produced two distinct results");
    }
    // the reference itself: interval arithmetic on a few literals
    if ints::written::<i8>(ints::Form::To, 0, 5) != (-128, 4) || ints::must_reach::<i8>(ints::Form::ToIncl, 0, 5) != (0, 5) || ints::written::<u16>(ints::Form::Full, 0, 0) != (0, 65535) || <i64 as IntTy>::min() != i64::MIN as i128 || <usize as IntTy>::max() != usize::MAX as i128 {
        run.machinery_failure("integer reference self-check failed");
    }

    // ---------------------------------------------------------------- float ranges
    let fr = floats::run();
    run.cov("float_ranges", fr.pairs);
    run.cov("float_ranges_whose_length_overflows", fr.pairs_overflowing);
    run.cov("float_empty_ranges_skipped", fr.skipped_empty);
    run.cov("float_draws", fr.evals);
    run.cov("float_draws_with_raw_in_top_2048", fr.top_raw_evals);
    run.cov("float_ranges_nontrivial", fr.nontrivial);
    run.cov("float_failing_ranges_hits_end", fr.failing_pairs[0]);
    run.cov("float_failing_ranges_other", fr.failing_pairs[1]);
    run.cov("float_failing_ranges_length_overflow", fr.failing_pairs[2]);
    run.add("skipped_out_of_domain", fr.skipped_empty);
    evaluations += fr.evals;
    nontrivial += fr.nontrivial;
    for f in &fr.first {
        run.violation(floats::violation(f, &fr));
    }
    if let Some(s) = &fr.sample {
        run.sample(s.clone());
    }
    if fr.pairs < 150 || fr.pairs_overflowing < 3 || fr.top_raw_evals < fr.pairs * 2048 || fr.nontrivial < 50 {
        run.machinery_failure("float range enumeration explored implausibly little");
    }

    // ---------------------------------------------------------------- determinism
    let dense = tier.pick(65535u64, (1 << 20) - 1);
    let det = streams::run_determinism(dense);
    run.cov("determinism_seeds", det.seeds);
    run.cov("determinism_distinct_streams", det.distinct_streams);
    run.cov("determinism_failing_seeds", det.failing);
    evaluations += det.seeds * 4;
    if let Some((seed, mode, msg)) = &det.first {
        run.violation(Violation::new(format!("determinism:seed={seed}:{mode}"), msg.clone(), json!({"family": "determinism", "seed": seed.to_string(), "mode": mode})));
    } else if det.distinct_streams < 2 {
        run.machinery_failure("all seeds gave the same stream: the determinism check compares nothing");
    }
    run.sample(json!({"family": "determinism", "seed": "42", "stream_fingerprint": format!("{:?}", streams::determinism_one(42).map_err(|e| e.1)), "draws": streams::STREAM_LEN}));

    // ---------------------------------------------------------------- shuffle
    if let Err(e) = streams::seed_alphabet_selfcheck() {
        run.machinery_failure(&e);
    }
    // the dense interval: rearrangement, reachability, near-equal frequency
    let dense = streams::SeedFamily::Dense(tier.pick(720 * 300u64, 720 * 30_000));
    let sh = streams::run_shuffle(&dense);
    run.cov("shuffle_seeds", dense.len());
    run.cov("shuffles", sh.shuffles);
    run.cov("shuffle_not_a_permutation", sh.bad);
    evaluations += sh.shuffles;
    let mut reported = ShuffleReported::default();
    let (rows, distinct_perms) = shuffle_family(&mut run, &dense, &sh, true, &mut reported);
    run.cov("shuffle_reach_and_frequency", Value::Array(rows));
    run.cov("shuffle_distinct_rearrangements_seen_len_le_6", distinct_perms);
    run.cov("shuffle_non_identity_results_per_len", json!(sh.non_identity));
    // the structured family: rearrangement and reachability; its counts are evidence only (see assumptions)
    let structured = streams::SeedFamily::structured(tier.pick(12, 14));
    let shs = streams::run_shuffle(&structured);
    run.cov("shuffle_structured_seeds", structured.len());
    run.cov("shuffle_structured_seeds_with_32+_trailing_zeros", (0..structured.len()).filter(|&i| structured.get(i).trailing_zeros() >= 32).count() as u64);
    run.cov("shuffles_structured", shs.shuffles);
    run.cov("shuffle_structured_not_a_permutation", shs.bad);
    evaluations += shs.shuffles;
    let (rows, distinct_perms) = shuffle_family(&mut run, &structured, &shs, false, &mut reported);
    run.cov("shuffle_structured_reach_and_counts_diagnostic", Value::Array(rows));
    run.cov("shuffle_structured_distinct_rearrangements_seen_len_le_6", distinct_perms);
    for acc in [&sh, &shs] {
        if acc.bad == 0 && (2..=streams::MAX_PERM_LEN).any(|l| acc.non_identity[l] == 0) {
            run.machinery_failure("some slice length was never rearranged by any seed: the shuffle checks compare nothing");
        }
    }
    if streams::perm_rank(&[2, 0, 1]) != 4 || streams::perm_unrank(4, 3) != vec![2, 0, 1] || (0..720).any(|r| streams::perm_rank(&streams::perm_unrank(r, 6)) != r) || streams::is_permutation(&[0, 0, 2], 3) {
        run.machinery_failure("permutation rank self-check failed");
    }
    run.sample(json!({"family": "shuffle", "seed": "42", "len": 6, "observed": format!("{:?}", streams::shuffled(42, 6))}));
    run.sample(json!({"family": "shuffle", "seed": (1u64 << 63).to_string(), "len": 6, "observed": format!("{:?}", streams::shuffled(1 << 63, 6))}));

    // ---------------------------------------------------------------- serial structure
    if let Err(e) = streams::period_detector_selftest() {
        run.machinery_failure(&e);
    }
    let budget = tier.pick(
        streams::PeriodBudget { seeds: 256, seeds_forms: 64, seeds_long: 32, draws: 4096, maxp: 1024 },
        streams::PeriodBudget { seeds: 4096, seeds_forms: 256, seeds_long: 128, draws: 16384, maxp: 4096 },
    );
    let pr = streams::run_period(budget);
    run.cov("period_cases", pr.cases);
    run.cov("period_streams", pr.streams);
    run.cov("period_draws", pr.draws);
    run.cov("period_seeds_per_case_plain_forms_long", json!([budget.seeds, budget.seeds_forms, budget.seeds_long]));
    run.cov("period_draws_per_stream", budget.draws as u64);
    run.cov("period_max_period_searched", budget.maxp as u64);
    run.cov("period_full_width_cases", pr.full_width_cases);
    run.cov("period_streams_searched_up_to_the_value_count", pr.long_streams);
    run.cov("period_structured_seeds_plain_cases_other_cases", json!([pr.structured_seeds_full_core.0, pr.structured_seeds_full_core.1]));
    run.cov("period_streams_from_structured_seeds", pr.structured_streams);
    run.cov("period_streams_from_seeds_with_52+_trailing_zero_bits", pr.high_only_streams);
    run.cov("period_cases_and_streams_per_type_and_form", Value::Object(pr.per_type_form.iter().map(|(k, c, s)| (k.clone(), json!({"cases": c, "streams": s}))).collect()));
    run.cov("period_distinct_streams", pr.distinct_streams);
    run.cov("period_periodic_streams", pr.periodic);
    run.cov("period_periodic_cases", pr.periodic_cases.len() as u64);
    run.cov("period_periodic_by_case", Value::Array(pr.periodic_cases.iter().take(40).map(|(l, n, p)| json!({"case": l, "periodic_seeds": n, "smallest_period": p})).collect()));
    evaluations += pr.streams;
    if let Some((case, seed, what)) = &pr.first {
        run.violation(streams::period_violation(case, *seed, what, &pr));
    }
    if pr.distinct_streams < pr.streams / 4 {
        // 2^k-periodic streams of different seeds may coincide, but not most of them
        if pr.periodic == 0 {
            run.machinery_failure("most small-range streams coincide although none is periodic");
        }
    }
    // every form of every type, the full-width forms of the four narrow types, and the long streams ran
    if pr.per_type_form.len() != 4 * 5 + 6 * 4 || pr.full_width_cases != 4 * 2 + 2 || pr.long_streams == 0 || pr.cases < 1000 {
        run.machinery_failure("the periodicity family did not visit every range form of every type (incl. the full-width forms of the 8- and 16-bit types)");
    }
    // every case ran on at least the 64 single-bit seeds beyond its dense interval
    if pr.structured_streams < pr.cases * 50 || pr.high_only_streams < pr.cases * 12 {
        run.machinery_failure("the periodicity family did not run on the structured seeds");
    }
    run.sample(json!({"family": "small_range_not_periodic", "seed": "0", "call": "next::<usize, _>(0..4)", "first_draws": format!("{:?}", streams::stream::<usize>(ints::Form::Range, 0, 4, 0, 16))}));
    run.sample(json!({"family": "small_range_not_periodic", "seed": "0", "call": "next::<u8, _>(..)", "first_draws": format!("{:?}", streams::stream::<u8>(ints::Form::Full, 0, 0, 0, 16))}));
    run.sample(json!({"family": "small_range_not_periodic", "seed": (1u64 << 63).to_string(), "call": "next::<usize, _>(0..10)", "first_draws": format!("{:?}", streams::stream::<usize>(ints::Form::Range, 0, 10, 1 << 63, 16))}));
    run.cov("lowbit_machine_diagnostic", streams::lowbit_diagnostic());

    // ---------------------------------------------------------------- totals
    run.cov("evaluations", evaluations);
    run.cov("distinct_nontrivial", nontrivial);
    run.cov(
        "rule",
        "integer: every (start,end) of a..b, a..=b, ..b, ..=b, .. for i8/u8 (thorough: also every ..b, ..=b for i16/u16) and all pairs of boundary values (0, +-small, 2^k+-1, MIN+d, MAX-d, a quarter / half / three quarters of the way to MIN and to MAX +-1, round decimal bounds 10^k, 5*10^k) + boundary lengths (1,2,3,2^k,2^k+-1,MAX, three quarters of the span +-1, span-d, full) anchored to start and to end at every boundary value for the wider types - so every type incl. isize/usize has ranges of more than half its span from MIN, to MAX and touching neither end, and the longest range of every form MIN..MAX, MIN..=MAX, ..MAX, ..=MAX, .. (counted per type and form, their absence is a machinery failure) -, each crossed with the raw alphabet R(len) (0..=2len, top of u64, neighbours of multiples of len near 2^8..2^64, powers of two, ceil(k*2^64/len)); float: all ordered pairs of a 20-value boundary grid x 2300 raw values; generator: all seeds of the stated sets. \
         seeds: every seed-quantified family runs on a dense interval [0,S) and on structured 64-bit seeds - every single bit 1<<k, 3/5/42/0xab/0xabc shifted to every position, only-low-bits masks 2^k-1, only-high-bits masks !0<<k, 2^k+1, all ones but one bit, the top bit plus one bit, every top byte b<<56, u64::MAX-j (j<=16), alternating and half-word patterns (the core = single bits, MAX, MAX-1, patterns); determinism: [0,S) + boundary + the structured alphabet (same seed twice, interleaved, copies; for every 16th dense seed and all others also a generator built on another thread and one moved to another thread); shuffle: [0,S) (rearrangement, every rearrangement of len<=6 reached, counts within [1/2,2] x mean) and the structured family = every odd m < 2^12 (thorough 2^14) shifted to every position + the structured alphabet (rearrangement, every rearrangement of len<=6 reached). \
         serial structure: for every integer type and every value-set size n in {2..16, 32, 64, 128, 255, 256} (16-bit types: also 2^9..2^15 and 65535) every range form denoting n values (a..a+n and a..=a+n-1 for a in {0, MIN, 1}, ..n, ..=n-1), and for the 8- and 16-bit types the full-width forms (.., MIN..=MAX, ..=MAX): the stream of consecutive draws from every seed of the case has no period p <= max(n, tier base), searched in a stream of at least 3 periods (seeds per case: [0,S), S stated in period_seeds_per_case_plain_forms_long for plain next(0..len) on usize / the other cases / streams longer than the tier base, followed by the whole structured alphabet for the plain cases and its core for the other cases). \
         two builds: the whole enumeration is executed in the release profile and, as a child process, in the dbg profile (same optimisation, debug assertions and integer overflow checks on, like `cargo test`), where a panic on an in-domain case is a violation (signature prefix dbg:); empty ranges are skipped before the call in both. \
         distinct_nontrivial = number of distinct integer (type,form,range) cases + float ranges whose draws produced at least two different in-range values (measured)",
    );
    run.cov("exhaustive", true);
    run.cov("exhaustive_note", "exhaustive over the stated finite sets (all 8-bit ranges, the boundary sets for wider types, the float grid, seeds [0,S) and the structured seed alphabets); not over all u64 raw values or all seeds");
    run.assume("`..b` and `..=b` are read as the library and its own tests read them, as 0..b and 0..=b: a non-positive (negative) end is an empty range and outside the domain; results are accepted anywhere inside the written range MIN..b, and only 0..b is required to be reachable");
    run.assume("reachability of a small range is witnessed on a stated finite raw alphabet (which contains 0..=2*len and ceil(k*2^64/len) for every k), not on all of u64");
    run.assume("for the periodicity clause a 'small range' is a range of any form with at most 2^16 values (which includes the full-width forms of the 8- and 16-bit types); 'not periodic' = no p <= max(value count, tier base) with s[i] == s[i+p] throughout a stream of at least 3p draws");
    run.assume("near-equal frequency of the rearrangements is demanded over the dense seed interval only; the structured seed family is not a uniform sample of the seeds (half of its members have 32 or more trailing zero bits), so over it only reachability is demanded and the counts are recorded as a diagnostic (shuffle_structured_reach_and_counts_diagnostic)");
    run.assume("two builds are judged: the release profile of the workspace (overflow checks and debug assertions off, like a release build of rlib) and, as a second pass over the same enumeration, the dbg profile (debug assertions and integer overflow checks on): the property does not restrict the build, so a draw that panics there on a non-empty range, or a stream that differs there, is a violation (signature prefix dbg:)");
    run.cov("overflow_checks_in_this_build", overflow_checks_on());
    if std::env::var("VCORE_CHILD").is_err() {
        // the same enumeration in a build with debug assertions and integer overflow checks
        run.run_dbg_child();
    } else if !overflow_checks_on() {
        run.machinery_failure("the second-profile pass runs in a build without integer overflow checks");
    }
    run.finish(&confirm)
}
