//! Generator-level families: determinism, shuffle_*, small_range_not_periodic, and the low-bit
//! machine diagnostic.

use crate::ints::{in_domain, range_len, Form, IntTy};
use rayon::prelude::*;
use rlib_rand::{Rand, Rng};
use vcore::*;

// ---------------------------------------------------------------------------------------------
// seed alphabets
//
// A seed is an arbitrary u64: a counter, but also a hash, a bit mask, an id shifted into the high bits.
// Every seed-quantified family therefore runs on a dense interval [0, S) AND on the structured seeds
// below, whose significant bits sit at every position of the word.

fn dedup_keep_order(s: &mut Vec<u64>) {
    let mut seen = std::collections::BTreeSet::new();
    s.retain(|x| seen.insert(*x));
}

/// The alternating / block patterns of every block width 1..32.
const PATTERNS: [u64; 12] = [
    0x5555_5555_5555_5555,
    0xaaaa_aaaa_aaaa_aaaa,
    0x3333_3333_3333_3333,
    0xcccc_cccc_cccc_cccc,
    0x0f0f_0f0f_0f0f_0f0f,
    0xf0f0_f0f0_f0f0_f0f0,
    0x00ff_00ff_00ff_00ff,
    0xff00_ff00_ff00_ff00,
    0x0000_ffff_0000_ffff,
    0xffff_0000_ffff_0000,
    0x0000_0000_ffff_ffff,
    0xffff_ffff_0000_0000,
];

/// The core of the structured alphabet (simplest first): every single-bit seed 1<<k, the top of u64,
/// and the alternating / half-word patterns.
pub fn core_structured_seeds() -> Vec<u64> {
    let mut s: Vec<u64> = (0..64).map(|k| 1u64 << k).collect();
    s.extend([u64::MAX, u64::MAX - 1]);
    s.extend(PATTERNS);
    s
}

/// The structured alphabet (simplest first): the core; small multipliers (3, 5, 42, 0xab, 0xabc) shifted
/// to every position k = 0..63 (bits shifted out of the word are lost); only-low-bits masks 2^k-1 and
/// only-high-bits masks !0<<k; 2^k+1; all ones but one bit; the top bit plus one other bit; every value
/// of the top byte alone (b<<56); u64::MAX - j for j <= 16; two dense constants.  Zero is not structured
/// (it is the first dense seed).
pub fn structured_seeds() -> Vec<u64> {
    let mut s = core_structured_seeds();
    for m in [3u64, 5, 42, 0xab, 0xabc] {
        s.extend((0..64).map(|k| m << k));
    }
    s.extend((2..64).map(|k| (1u64 << k) - 1));
    s.extend((1..64).map(|k| u64::MAX << k));
    s.extend((1..64).map(|k| (1u64 << k) + 1));
    s.extend((0..64).map(|k| !(1u64 << k)));
    s.extend((0..63).map(|k| 1u64 << 63 | 1u64 << k));
    s.extend((1..=255u64).map(|b| b << 56));
    s.extend((0..=16).map(|j| u64::MAX - j));
    s.extend([0x9e3779b97f4a7c15, 0xdeadbeefcafebabe]);
    s.retain(|&x| x != 0);
    dedup_keep_order(&mut s);
    s
}

/// Every odd multiplier m < 2^mbits shifted to every position k = 0..63 (bits shifted out are lost), by
/// position then multiplier: all the seeds whose significant bits span at most `mbits` positions.
pub fn positional_seeds(mbits: u32) -> Vec<u64> {
    let mut s: Vec<u64> = (0..64u32).flat_map(|k| (0..1u64 << (mbits - 1)).map(move |h| (2 * h + 1) << k)).collect();
    s.retain(|&x| x != 0);
    dedup_keep_order(&mut s);
    s
}

/// Facts that make the structured alphabets non-vacuous: every count of trailing zeros and every count
/// of leading zeros 0..63 occurs in the core (hence in the full alphabet), and the full alphabet has
/// seeds with 52+ trailing zeros other than single bits.
pub fn seed_alphabet_selfcheck() -> Result<(), String> {
    let (core, full, positional) = (core_structured_seeds(), structured_seeds(), positional_seeds(4));
    for k in 0..64u32 {
        if !core.iter().any(|s| s.trailing_zeros() == k) || !core.iter().any(|s| s.leading_zeros() == k) {
            return Err(format!("the core structured seed alphabet has no seed with {k} trailing / leading zeros"));
        }
        // (a seed with 63 trailing zeros has a single bit)
        if k < 63 && !positional.iter().any(|s| s.trailing_zeros() == k && s.count_ones() > 1) {
            return Err(format!("the positional seed family has no multi-bit seed with {k} trailing zeros"));
        }
    }
    if !core.iter().all(|s| full.contains(s)) || full.iter().filter(|s| s.trailing_zeros() >= 52 && s.count_ones() > 1).count() < 100 || full.contains(&0) {
        return Err("the structured seed alphabet lacks its core or the multi-bit seeds with only high bits set".into());
    }
    // a generator written here whose state keeps the trailing zero bits of its seed (state *= A, no
    // increment): the period search must see it from structured seeds, and from no seed of 1..256
    let weak = |seed: u64| -> Vec<u64> {
        let mut st = seed;
        (0..4096)
            .map(|_| {
                st = st.wrapping_mul(6364136223846793005);
                (st ^ (st >> 32)) % 10
            })
            .collect()
    };
    let seen = full.iter().filter(|&&s| min_period(&weak(s), 1024).is_some()).count();
    if seen < 100 || (1..256).any(|s| min_period(&weak(s), 1024).is_some()) || min_period(&weak(0xabc << 52), 1024).is_none() {
        return Err(format!("the period search over the structured seed alphabet does not separate a multiplicative generator from its dense seeds ({seen} periodic structured seeds)"));
    }
    Ok(())
}

// ---------------------------------------------------------------------------------------------
// determinism

pub const STREAM_LEN: usize = 64;

fn draw(rng: &mut Rng, i: usize) -> u64 {
    match i % 6 {
        0 => rng.next::<u8, _>(..) as u64,
        1 => rng.next(0..6usize) as u64,
        2 => rng.next(-5..=5i32) as i64 as u64,
        3 => rng.next(0.0..1.0f64).to_bits(),
        4 => rng.next::<u64, _>(..),
        _ => rng.next(..=1000i64) as u64,
    }
}

/// Ok(fingerprint of the reference stream) or Err((mode, message)).
pub fn determinism_one(seed: u64) -> Result<u64, (&'static str, String)> {
    let r = catch(|| {
        let mut a = Rng::from_seed(seed);
        let reference: Vec<u64> = (0..STREAM_LEN).map(|i| draw(&mut a, i)).collect();
        // a second generator from the same seed
        let mut b = Rng::from_seed(seed);
        for i in 0..STREAM_LEN {
            let x = draw(&mut b, i);
            if x != reference[i] {
                return Err(("same_seed", format!("draw {i} of a second generator from seed {seed} is {x}, the first generator gave {}", reference[i])));
            }
        }
        // two fresh generators drawn alternately
        let (mut c, mut d) = (Rng::from_seed(seed), Rng::from_seed(seed));
        for i in 0..STREAM_LEN {
            let (x, y) = (draw(&mut c, i), draw(&mut d, i));
            if x != reference[i] || y != reference[i] {
                return Err(("interleaved", format!("draw {i} of two generators from seed {seed} drawn alternately is {x} / {y}, a generator drawn alone gave {}", reference[i])));
            }
        }
        // a copy taken after 7 draws continues the stream and does not disturb the original
        let mut e = Rng::from_seed(seed);
        for i in 0..7 {
            draw(&mut e, i);
        }
        let mut f = e;
        for i in 7..STREAM_LEN {
            let x = draw(&mut f, i);
            if x != reference[i] {
                return Err(("copy", format!("draw {i} of a copy (taken after 7 draws, seed {seed}) is {x}, the reference stream has {}", reference[i])));
            }
        }
        for i in 7..STREAM_LEN {
            let x = draw(&mut e, i);
            if x != reference[i] {
                return Err(("copy", format!("draw {i} of the original after its copy was drawn from (seed {seed}) is {x}, the reference stream has {}", reference[i])));
            }
        }
        // a generator built from the same seed on ANOTHER thread, and one built here and drawn from there
        // (a thread's identity is not part of the seed); every 16th seed of the dense part and every
        // structured / boundary seed
        if seed % 16 == 0 || seed > (1 << 17) {
            let built_there: Vec<u64> = std::thread::spawn(move || {
                let mut g = Rng::from_seed(seed);
                (0..STREAM_LEN).map(|i| draw(&mut g, i)).collect()
            })
            .join()
            .map_err(|_| ("other_thread", format!("a generator built from seed {seed} on another thread panicked")))?;
            let mut moved = Rng::from_seed(seed);
            let drawn_there: Vec<u64> = std::thread::spawn(move || (0..STREAM_LEN).map(|i| draw(&mut moved, i)).collect())
                .join()
                .map_err(|_| ("other_thread", format!("a generator from seed {seed} moved to another thread panicked")))?;
            for i in 0..STREAM_LEN {
                if built_there[i] != reference[i] {
                    return Err(("other_thread", format!("draw {i} of a generator built from seed {seed} on another thread is {}, the one built on this thread gave {}", built_there[i], reference[i])));
                }
                if drawn_there[i] != reference[i] {
                    return Err(("other_thread", format!("draw {i} of a generator built here from seed {seed} and drawn from on another thread is {}, drawn here it gave {}", drawn_there[i], reference[i])));
                }
            }
        }
        let bytes: Vec<u8> = reference.iter().flat_map(|x| x.to_le_bytes()).collect();
        Ok(fnv(&bytes))
    });
    match r {
        Ok(x) => x,
        Err(p) => Err(("same_seed", format!("panicked while drawing from seed {seed}: {p}"))),
    }
}

pub fn determinism_seeds(dense: u64) -> Vec<u64> {
    let mut s: Vec<u64> = (0..=dense).collect();
    for k in 17..64u32 {
        s.extend([(1u64 << k) - 1, 1u64 << k, (1u64 << k) + 1]);
    }
    s.extend([u64::MAX - 2, u64::MAX - 1, u64::MAX, 42, 0x9e3779b97f4a7c15, 0xdeadbeefcafebabe]);
    s.extend(structured_seeds());
    dedup_keep_order(&mut s);
    s
}

pub struct DetReport {
    pub seeds: u64,
    pub distinct_streams: u64,
    pub first: Option<(u64, &'static str, String)>,
    pub failing: u64,
}

pub fn run_determinism(dense: u64) -> DetReport {
    let seeds = determinism_seeds(dense);
    let res: Vec<(usize, Result<u64, (&'static str, String)>)> = seeds.par_iter().enumerate().map(|(i, &s)| (i, determinism_one(s))).collect();
    let mut fps: Vec<u64> = res.iter().filter_map(|r| r.1.as_ref().ok().copied()).collect();
    fps.sort_unstable();
    fps.dedup();
    let failing = res.iter().filter(|r| r.1.is_err()).count() as u64;
    let first = res.iter().find(|r| r.1.is_err()).map(|(i, r)| {
        let (m, msg) = r.as_ref().err().unwrap();
        (seeds[*i], *m, msg.clone())
    });
    DetReport { seeds: seeds.len() as u64, distinct_streams: fps.len() as u64, first, failing }
}

pub fn confirm_determinism(v: &Value) -> Result<(), String> {
    let seed: u64 = v["seed"].as_str().unwrap_or("0").parse().map_err(|_| "bad seed")?;
    // the message deliberately carries no drawn values: a generator that is not a function of its seed
    // need not fail twice in the same way, and the two confirming runs are compared textually
    determinism_one(seed).map(|_| ()).map_err(|_| format!("streams drawn from equal seeds / copies differ for seed {seed} (a generator must be a deterministic function of its seed)"))
}

// ---------------------------------------------------------------------------------------------
// shuffle

pub const MAX_PERM_LEN: usize = 8;
pub const MAX_COUNT_LEN: usize = 6;
const FACT: [usize; 9] = [1, 1, 2, 6, 24, 120, 720, 5040, 40320];

/// Shuffle the identity of `len` elements once with a generator seeded `seed`.
pub fn shuffled(seed: u64, len: usize) -> Result<Vec<u8>, String> {
    catch(|| {
        let mut v: Vec<u8> = (0..len as u8).collect();
        let mut rng = Rng::from_seed(seed);
        rng.shuffle(&mut v);
        v
    })
}

pub fn is_permutation(v: &[u8], len: usize) -> bool {
    if v.len() != len {
        return false;
    }
    let mut seen = [false; 256];
    for &x in v {
        if x as usize >= len || seen[x as usize] {
            return false;
        }
        seen[x as usize] = true;
    }
    true
}

/// Lexicographic rank of a permutation.
pub fn perm_rank(v: &[u8]) -> usize {
    let n = v.len();
    let mut r = 0;
    for i in 0..n {
        let smaller = v[i + 1..].iter().filter(|&&x| x < v[i]).count();
        r += smaller * FACT[n - 1 - i];
    }
    r
}

pub fn perm_unrank(mut r: usize, n: usize) -> Vec<u8> {
    let mut pool: Vec<u8> = (0..n as u8).collect();
    let mut out = vec![];
    for i in 0..n {
        let f = FACT[n - 1 - i];
        out.push(pool.remove(r / f));
        r %= f;
    }
    out
}

#[derive(Clone)]
pub struct ShuffleAcc {
    pub counts: Vec<Vec<u64>>, // [len] -> count per rank (len <= MAX_COUNT_LEN)
    pub non_identity: Vec<u64>, // [len]
    pub shuffles: u64,
    pub bad: u64,
    pub first_bad: Option<(u64, usize, u64, String)>, // (index of the seed in its family, len, seed, observed)
}

impl ShuffleAcc {
    fn new() -> Self {
        ShuffleAcc {
            counts: (0..=MAX_COUNT_LEN).map(|l| vec![0; FACT[l]]).collect(),
            non_identity: vec![0; MAX_PERM_LEN + 1],
            shuffles: 0,
            bad: 0,
            first_bad: None,
        }
    }
    fn merge(mut self, o: Self) -> Self {
        for (a, b) in self.counts.iter_mut().zip(&o.counts) {
            for (x, y) in a.iter_mut().zip(b) {
                *x += y;
            }
        }
        for (x, y) in self.non_identity.iter_mut().zip(&o.non_identity) {
            *x += y;
        }
        self.shuffles += o.shuffles;
        self.bad += o.bad;
        self.first_bad = match (self.first_bad.take(), o.first_bad) {
            (Some(x), Some(y)) => Some(if (x.0, x.1) <= (y.0, y.1) { x } else { y }),
            (x, y) => x.or(y),
        };
        self
    }
}

/// The seed sets the shuffle families are counted over.
#[derive(Clone)]
pub enum SeedFamily {
    /// every seed of [0, S)
    Dense(u64),
    /// `positional_seeds(mbits)` followed by the rest of `structured_seeds()`
    Structured { mbits: u32, list: Vec<u64> },
}

impl SeedFamily {
    pub fn structured(mbits: u32) -> SeedFamily {
        let mut list = positional_seeds(mbits);
        list.extend(structured_seeds());
        dedup_keep_order(&mut list);
        SeedFamily::Structured { mbits, list }
    }
    pub fn len(&self) -> u64 {
        match self {
            SeedFamily::Dense(s) => *s,
            SeedFamily::Structured { list, .. } => list.len() as u64,
        }
    }
    /// The i-th seed in enumeration order.
    pub fn get(&self, i: u64) -> u64 {
        match self {
            SeedFamily::Dense(_) => i,
            SeedFamily::Structured { list, .. } => list[i as usize],
        }
    }
    pub fn is_dense(&self) -> bool {
        matches!(self, SeedFamily::Dense(_))
    }
    pub fn describe(&self) -> String {
        match self {
            SeedFamily::Dense(s) => format!("[0,{s})"),
            SeedFamily::Structured { mbits, list } => format!("the structured family ({} seeds: every odd m < 2^{mbits} shifted to every bit position, and the structured seed alphabet)", list.len()),
        }
    }
    /// Members of a replay object that name the family (`seeds` alone is the dense interval, as before).
    pub fn to_json(&self) -> Value {
        match self {
            SeedFamily::Dense(s) => json!({"seeds": s}),
            SeedFamily::Structured { mbits, list } => json!({"seed_family": "structured", "multiplier_bits": mbits, "seeds": list.len()}),
        }
    }
    pub fn from_json(v: &Value) -> Result<SeedFamily, String> {
        match v["seed_family"].as_str() {
            None => Ok(SeedFamily::Dense(v["seeds"].as_u64().unwrap_or(0))),
            Some("structured") => {
                let f = SeedFamily::structured(v["multiplier_bits"].as_u64().filter(|b| (1..=20).contains(b)).ok_or("bad multiplier_bits")? as u32);
                if Some(f.len()) != v["seeds"].as_u64() {
                    return Err("the structured seed family of this build differs from the one the replay file was written with".into());
                }
                Ok(f)
            }
            Some(other) => Err(format!("unknown seed family {other:?}")),
        }
    }
}

pub fn run_shuffle(fam: &SeedFamily) -> ShuffleAcc {
    (0..fam.len())
        .into_par_iter()
        .fold(ShuffleAcc::new, |mut acc, idx| {
            let seed = fam.get(idx);
            for len in 0..=MAX_PERM_LEN {
                acc.shuffles += 1;
                match shuffled(seed, len) {
                    Ok(v) if is_permutation(&v, len) => {
                        let r = if len <= MAX_COUNT_LEN {
                            let r = perm_rank(&v);
                            acc.counts[len][r] += 1;
                            r
                        } else {
                            v.iter().enumerate().any(|(i, &x)| i != x as usize) as usize
                        };
                        if r != 0 {
                            acc.non_identity[len] += 1;
                        }
                    }
                    other => {
                        acc.bad += 1;
                        let obs = match other {
                            Ok(v) => format!("returned {v:?}"),
                            Err(p) => format!("panicked: {p}"),
                        };
                        if acc.first_bad.as_ref().map_or(true, |f| (idx, len) < (f.0, f.1)) {
                            acc.first_bad = Some((idx, len, seed, obs));
                        }
                    }
                }
            }
            acc
        })
        .reduce(ShuffleAcc::new, ShuffleAcc::merge)
}

pub fn count_perm(fam: &SeedFamily, len: usize, perm: &[u8]) -> u64 {
    (0..fam.len()).into_par_iter().filter(|&i| shuffled(fam.get(i), len).map_or(false, |v| v == perm)).count() as u64
}

pub fn confirm_shuffle(v: &Value) -> Result<(), String> {
    let fam = v["family"].as_str().unwrap_or("");
    let len = v["len"].as_u64().unwrap_or(0) as usize;
    if fam == "shuffle_is_permutation" {
        let seed: u64 = v["seed"].as_str().unwrap_or("0").parse().map_err(|_| "bad seed")?;
        return match shuffled(seed, len) {
            Ok(p) if is_permutation(&p, len) => Ok(()),
            Ok(p) => Err(format!("shuffling 0..{len} with Rng::from_seed({seed}) returned {p:?}, not a rearrangement")),
            Err(p) => Err(format!("shuffling 0..{len} with Rng::from_seed({seed}) panicked: {p}")),
        };
    }
    let seeds = SeedFamily::from_json(v)?;
    let perm: Vec<u8> = v["perm"].as_array().map(|a| a.iter().map(|x| x.as_u64().unwrap_or(0) as u8).collect()).unwrap_or_default();
    let c = count_perm(&seeds, len, &perm);
    let mean = seeds.len() as f64 / FACT[len] as f64;
    if fam == "shuffle_reaches_all" {
        if c > 0 {
            Ok(())
        } else {
            Err(format!("no seed in {} shuffles 0..{len} into {perm:?} (mean count per rearrangement would be {mean:.1})", seeds.describe()))
        }
    } else if (c as f64) < mean / 2.0 || (c as f64) > mean * 2.0 {
        Err(format!("{c} of the seeds in {} shuffle 0..{len} into {perm:?}; the mean per rearrangement is {mean:.1}, allowed [{:.1}, {:.1}]", seeds.describe(), mean / 2.0, mean * 2.0))
    } else {
        Ok(())
    }
}

// ---------------------------------------------------------------------------------------------
// serial structure
//
// One case = (integer type, range form, bounds) with a value set of n <= 2^16 values; for every seed of
// the case the stream of `draws` consecutive `rng.next(range)` results must have no period p <= maxp,
// where maxp = max(tier base, n) and draws >= 3 * maxp (a low-bits-of-a-counter generator repeats with
// period n on a value set of n = 2^k values, so the search always reaches n).  The seeds of a case are
// the dense interval [0, S) followed by structured seeds: the whole structured alphabet for the plain
// `next(0..len)` cases, its core (single bits, top of u64, patterns) for every other case.

/// Value-set sizes <= 256: every size up to 16, the powers of two, and 255 (the largest non power of two).
pub const SMALL_LENS: [u128; 20] = [2, 3, 4, 5, 6, 7, 8, 9, 10, 11, 12, 13, 14, 15, 16, 32, 64, 128, 255, 256];
/// Further sizes for the 16-bit types: the powers of two above 256 and 2^16 - 1.
pub const MEDIUM_LENS: [u128; 8] = [512, 1024, 2048, 4096, 8192, 16384, 32768, 65535];

#[derive(Clone, Debug)]
pub struct PeriodCase {
    pub ty: &'static str,
    pub form: Form,
    pub a: i128,
    pub b: i128,
    /// number of values of the range
    pub n: u128,
    pub draws: usize,
    pub maxp: usize,
    /// dense seeds [0, seeds)
    pub seeds: u64,
}

impl PeriodCase {
    /// The seeds of the case in enumeration order: [0, seeds), then those of the structured alphabet of
    /// the case (`full` for the plain cases, `core` for the others) that are not in the interval.
    pub fn seed_list(&self, full: &[u64], core: &[u64]) -> Vec<u64> {
        let structured = if self.is_plain() { full } else { core };
        (0..self.seeds).chain(structured.iter().copied().filter(|&s| s >= self.seeds)).collect()
    }
    /// The `next(0..len)` cases on usize are the original family and keep their short label.
    pub fn is_plain(&self) -> bool {
        self.ty == "usize" && self.form == Form::Range && self.a == 0
    }
    pub fn label(&self) -> String {
        if self.is_plain() {
            format!("len={}", self.b)
        } else {
            format!("{}:{}", self.ty, self.form.show(self.a, self.b))
        }
    }
    pub fn call(&self) -> String {
        format!("next::<{}, _>({})", self.ty, self.form.show(self.a, self.b))
    }
}

/// Stream budget of a tier: draws and max period for value sets of at most `maxp` values (larger value
/// sets: max period = value count, draws = 3 periods), and the number of seeds [0, S) per case — for the
/// plain `next(0..len)` cases on usize, for the other cases, and for the cases with longer streams.
#[derive(Clone, Copy)]
pub struct PeriodBudget {
    pub seeds: u64,
    pub seeds_forms: u64,
    pub seeds_long: u64,
    pub draws: usize,
    pub maxp: usize,
}

/// The cases of one type: for every size n of the size list, every range FORM that denotes n values —
/// `a..a+n` and `a..=a+n-1` for every start a in {0, MIN, 1} (the three branches of RangeInclusive),
/// `..n`, `..=n-1` — and, for 8- and 16-bit types, the full-width forms `..`, `MIN..=MAX`, `..=MAX`.
fn period_cases_of<T: IntTy>(budget: PeriodBudget, out: &mut Vec<PeriodCase>) {
    let (mn, mx) = (T::min(), T::max());
    let narrow = T::BITS <= 16;
    let mut seen = std::collections::BTreeSet::new();
    let mut put = |form: Form, a: i128, b: i128| {
        if a < mn || a > mx || b < mn || b > mx || !in_domain::<T>(form, a, b) || !seen.insert((form, a, b)) {
            return;
        }
        let n = range_len::<T>(form, a, b);
        let plain = T::NAME == "usize" && form == Form::Range && a == 0;
        let (draws, maxp, seeds) = if n as usize <= budget.maxp {
            (budget.draws, budget.maxp, if plain { budget.seeds } else { budget.seeds_forms })
        } else {
            (3 * n as usize, n as usize, budget.seeds_long)
        };
        out.push(PeriodCase { ty: T::NAME, form, a, b, n, draws, maxp, seeds });
    };
    let mut lens: Vec<u128> = SMALL_LENS.to_vec();
    if T::BITS == 16 {
        lens.extend(MEDIUM_LENS);
    }
    for n in lens {
        let n = n as i128;
        for a in [0, mn, 1] {
            put(Form::Range, a, a + n);
            put(Form::Incl, a, a + n - 1);
        }
        put(Form::To, 0, n);
        put(Form::ToIncl, 0, n - 1);
    }
    if narrow {
        put(Form::Full, 0, 0);
        put(Form::Incl, mn, mx);
        put(Form::ToIncl, 0, mx);
    }
}

/// All cases, simplest first: the plain `next(0..len)` cases, then type by type (narrowest first), each
/// by size.
pub fn period_cases(budget: PeriodBudget) -> Vec<PeriodCase> {
    let mut v = vec![];
    period_cases_of::<u8>(budget, &mut v);
    period_cases_of::<i8>(budget, &mut v);
    period_cases_of::<u16>(budget, &mut v);
    period_cases_of::<i16>(budget, &mut v);
    period_cases_of::<u32>(budget, &mut v);
    period_cases_of::<i32>(budget, &mut v);
    period_cases_of::<u64>(budget, &mut v);
    period_cases_of::<i64>(budget, &mut v);
    period_cases_of::<usize>(budget, &mut v);
    period_cases_of::<isize>(budget, &mut v);
    // stable: within one (type, size) the forms stay in the order they were generated
    v.sort_by_key(|c| (!c.is_plain(), type_rank(c.ty), c.n));
    v
}

fn type_rank(ty: &str) -> usize {
    ["u8", "i8", "u16", "i16", "u32", "i32", "u64", "i64", "usize", "isize"].iter().position(|t| *t == ty).unwrap_or(99)
}

/// Smallest p <= maxp with s[i] == s[i+p] for all i, if any.  The smallest period of a sequence of
/// length n is n minus its longest proper border (prefix function), so the search is linear.
pub fn min_period<T: PartialEq>(s: &[T], maxp: usize) -> Option<usize> {
    let n = s.len();
    if n < 2 {
        return None;
    }
    let mut border = vec![0u32; n];
    for i in 1..n {
        let mut k = border[i - 1] as usize;
        while k > 0 && s[i] != s[k] {
            k = border[k - 1] as usize;
        }
        if s[i] == s[k] {
            k += 1;
        }
        border[i] = k as u32;
    }
    let p = n - border[n - 1] as usize;
    (p < n && p <= maxp).then_some(p)
}

/// The definition, literally (quadratic): used to cross-check `min_period` in the self-test.
fn min_period_by_definition<T: PartialEq>(s: &[T], maxp: usize) -> Option<usize> {
    (1..=maxp.min(s.len().saturating_sub(1))).find(|&p| (0..s.len() - p).all(|i| s[i] == s[i + p]))
}

/// `draws` consecutive draws of one range from a fresh generator.
pub fn stream<T: IntTy>(form: Form, a: i128, b: i128, seed: u64, draws: usize) -> Result<Vec<i64>, String> {
    catch(|| {
        let mut rng = Rng::from_seed(seed);
        (0..draws).map(|_| T::draw(&mut rng, form, a, b) as i64).collect()
    })
}

pub fn stream_of(ty: &str, form: Form, a: i128, b: i128, seed: u64, draws: usize) -> Result<Vec<i64>, String> {
    crate::dispatch_ty!(ty, T => stream::<T>(form, a, b, seed, draws)).unwrap_or_else(|| Err(format!("unknown type {ty}")))
}

fn show_head(s: &[i64], p: usize) -> String {
    format!("{:?}...", &s[..(2 * p).min(12).min(s.len())])
}

pub struct PeriodReport {
    pub cases: u64,
    pub streams: u64,
    pub draws: u64,
    pub periodic: u64,
    pub first: Option<(PeriodCase, u64, String)>, // (case, seed, what)
    pub periodic_cases: Vec<(String, u64, usize)>, // (case label, number of periodic seeds, smallest period seen)
    pub distinct_streams: u64,
    pub per_type_form: Vec<(String, u64, u64)>, // ("u8:full", cases, streams)
    pub full_width_cases: u64,
    pub long_streams: u64, // streams searched for a period above the tier base
    pub base_maxp: usize,
    pub structured_streams: u64, // streams from a seed outside the dense interval of the case
    pub structured_seeds_full_core: (u64, u64),
    pub high_only_streams: u64, // streams from a seed with 52+ trailing zero bits
}

pub fn run_period(budget: PeriodBudget) -> PeriodReport {
    let cases = period_cases(budget);
    let (full, core) = (structured_seeds(), core_structured_seeds());
    let jobs: Vec<(usize, u64)> = cases.iter().enumerate().flat_map(|(ci, c)| c.seed_list(&full, &core).into_iter().map(move |s| (ci, s))).collect();
    let res: Vec<(Option<String>, Option<usize>, u64)> = jobs
        .par_iter()
        .map(|&(ci, seed)| {
            let c = &cases[ci];
            match stream_of(c.ty, c.form, c.a, c.b, seed, c.draws) {
                Err(p) => (Some(format!("panicked: {p}")), None, 0),
                Ok(s) => {
                    // FNV-style fold over the values (not the bytes), with the case index mixed in
                    let fp = s.iter().fold(0xcbf29ce484222325u64 ^ ci as u64, |h, &x| (h ^ x as u64).wrapping_mul(0x100000001b3));
                    match min_period(&s, c.maxp) {
                        Some(p) => (Some(format!("period {p}: {}", show_head(&s, p))), Some(p), fp),
                        None => (None, None, fp),
                    }
                }
            }
        })
        .collect();
    let mut rep = PeriodReport {
        cases: cases.len() as u64,
        streams: jobs.len() as u64,
        draws: jobs.iter().map(|j| cases[j.0].draws as u64).sum(),
        periodic: 0,
        first: None,
        periodic_cases: vec![],
        distinct_streams: 0,
        per_type_form: vec![],
        full_width_cases: cases.iter().filter(|c| c.n == 1u128 << type_bits(c.ty)).count() as u64,
        long_streams: jobs.iter().filter(|j| cases[j.0].maxp > budget.maxp).count() as u64,
        base_maxp: budget.maxp,
        structured_streams: jobs.iter().filter(|j| j.1 >= cases[j.0].seeds).count() as u64,
        structured_seeds_full_core: (full.len() as u64, core.len() as u64),
        high_only_streams: jobs.iter().filter(|j| j.1.trailing_zeros() >= 52).count() as u64,
    };
    for c in &cases {
        let key = format!("{}:{}", c.ty, c.form.name());
        let streams = c.seed_list(&full, &core).len() as u64;
        match rep.per_type_form.iter_mut().find(|e| e.0 == key) {
            Some(e) => {
                e.1 += 1;
                e.2 += streams;
            }
            None => rep.per_type_form.push((key, 1, streams)),
        }
    }
    // distinct streams per case, summed over the cases (the case index is mixed into the fingerprint)
    let mut fps: Vec<u64> = res.iter().map(|r| r.2).collect();
    fps.sort_unstable();
    fps.dedup();
    rep.distinct_streams = fps.len() as u64;
    for (j, r) in jobs.iter().zip(&res) {
        if let Some(w) = &r.0 {
            rep.periodic += 1;
            if rep.first.is_none() {
                rep.first = Some((cases[j.0].clone(), j.1, w.clone()));
            }
            let p = r.1.unwrap_or(0);
            let label = cases[j.0].label();
            match rep.periodic_cases.iter_mut().find(|e| e.0 == label) {
                Some(e) => {
                    e.1 += 1;
                    e.2 = e.2.min(p);
                }
                None => rep.periodic_cases.push((label, 1, p)),
            }
        }
    }
    rep
}

fn type_bits(ty: &str) -> u32 {
    crate::dispatch_ty!(ty, T => <T as IntTy>::BITS).unwrap_or(0)
}

pub fn period_violation(c: &PeriodCase, seed: u64, what: &str, rep: &PeriodReport) -> Violation {
    let labels: Vec<&str> = rep.periodic_cases.iter().take(24).map(|e| e.0.as_str()).collect();
    Violation::new(
        format!("small_range_not_periodic:{}:seed={seed}", c.label()),
        format!(
            "the {}-draw stream of {} from Rng::from_seed({seed}) has {what}; {} of {} streams are periodic (period <= max(value count, {})), in {} cases: {labels:?}{}",
            c.draws,
            c.call(),
            rep.periodic,
            rep.streams,
            rep.base_maxp,
            rep.periodic_cases.len(),
            if rep.periodic_cases.len() > labels.len() { " ..." } else { "" }
        ),
        json!({"family": "small_range_not_periodic", "type": c.ty, "form": c.form.name(), "a": c.a.to_string(), "b": c.b.to_string(),
               "seed": seed.to_string(), "draws": c.draws, "max_period": c.maxp}),
    )
}

pub fn confirm_period(v: &Value) -> Result<(), String> {
    let seed: u64 = v["seed"].as_str().unwrap_or("0").parse().map_err(|_| "bad seed")?;
    let draws = v["draws"].as_u64().unwrap_or(4096) as usize;
    let maxp = v["max_period"].as_u64().unwrap_or(1024) as usize;
    // replay files written before the family covered every range form carry only `len` (usize 0..len)
    let (ty, form, a, b) = match v["type"].as_str() {
        Some(ty) => {
            let p = |x: &Value| x.as_str().and_then(|s| s.parse::<i128>().ok()).unwrap_or(0);
            (ty.to_string(), Form::parse(v["form"].as_str().unwrap_or("")).ok_or("bad form")?, p(&v["a"]), p(&v["b"]))
        }
        None => ("usize".to_string(), Form::Range, 0, v["len"].as_u64().unwrap_or(2) as i128),
    };
    let call = format!("next::<{ty}, _>({})", form.show(a, b));
    match stream_of(&ty, form, a, b, seed, draws) {
        Err(p) => Err(format!("{call} from seed {seed} panicked: {p}")),
        Ok(s) => match min_period(&s, maxp) {
            None => Ok(()),
            Some(p) => Err(format!("the {draws}-draw stream of {call} from Rng::from_seed({seed}) is periodic with period {p} (s[i] == s[i+{p}] for all i): {}", show_head(&s, p))),
        },
    }
}

/// Self-test of the period detector on streams that do not come from the library.
pub fn period_detector_selftest() -> Result<(), String> {
    let cyc: Vec<usize> = (0..4096).map(|i| [1usize, 0, 3, 2][i % 4]).collect();
    if min_period(&cyc, 1024) != Some(4) {
        return Err("the period detector does not find period 4 in 1,0,3,2,...".into());
    }
    let cyc: Vec<usize> = (0..4096).map(|i| (i % 1024 == 5) as usize).collect();
    if min_period(&cyc, 1024) != Some(1024) {
        return Err("the period detector does not find period 1024 in a synthetic stream".into());
    }
    // a 16-bit counter: period 65536 in 3 * 65536 values, and no shorter one
    let cnt: Vec<i64> = (0..3 * 65536i64).map(|i| (i * 40503 + 7) % 65536 - 32768).collect();
    if min_period(&cnt, 65536) != Some(65536) || min_period(&cnt, 65535).is_some() {
        return Err("the period detector does not find period 65536 (and only that) in a synthetic 16-bit counter".into());
    }
    // an aperiodic reference stream: splitmix64 written here
    let mut x: u64 = 1;
    let mut splitmix = move || {
        x = x.wrapping_add(0x9e3779b97f4a7c15);
        let mut z = x;
        z = (z ^ (z >> 30)).wrapping_mul(0xbf58476d1ce4e5b9);
        z = (z ^ (z >> 27)).wrapping_mul(0x94d049bb133111eb);
        z ^ (z >> 31)
    };
    let aper: Vec<usize> = (0..4096).map(|_| (splitmix() % 2) as usize).collect();
    if min_period(&aper, 1024).is_some() {
        return Err("the period detector reports a period in a splitmix64 bit stream".into());
    }
    // eventually-periodic but with a defect in the last position: not periodic by the definition
    let mut almost: Vec<usize> = (0..4096).map(|i| i % 2).collect();
    almost[4095] = 0;
    if min_period(&almost, 1024).is_some() {
        return Err("the period detector ignores a mismatch in the last draw".into());
    }
    // the linear search agrees with the definition on every sequence of a small exhaustive family
    // (all words of length <= 10 over {0,1,2}) and on periodic words with a defect
    for len in 2..=10usize {
        for code in 0..3usize.pow(len as u32) {
            let w: Vec<usize> = (0..len).map(|i| code / 3usize.pow(i as u32) % 3).collect();
            for maxp in [1, 2, len / 2, len] {
                if min_period(&w, maxp) != min_period_by_definition(&w, maxp) {
                    return Err(format!("the linear period search disagrees with the definition on {w:?} (max period {maxp})"));
                }
            }
        }
    }
    for p in [1usize, 3, 8, 100] {
        for defect in [None, Some(0usize), Some(511), Some(1023)] {
            let mut w: Vec<u64> = (0..1024).map(|i| (i % p) as u64 * 7 % 5).collect();
            if let Some(d) = defect {
                w[d] = 99;
            }
            if min_period(&w, 512) != min_period_by_definition(&w, 512) {
                return Err(format!("the linear period search disagrees with the definition on a period-{p} word with defect {defect:?}"));
            }
        }
    }
    Ok(())
}

// ---------------------------------------------------------------------------------------------
// diagnostic: the low-bit machine (evidence only, never a verdict)

/// If `next_raw` returns the generator's state (tested black-box: a generator seeded with an output
/// continues the stream), then for k <= 16 the map r -> low_k(next_raw(from_seed(r))) on the 2^k
/// residues is enumerated completely and its cycle structure reported.
pub fn lowbit_diagnostic() -> Value {
    let output_is_state = (0..65536u64).chain([u64::MAX, 1 << 63, 0xdeadbeefcafebabe]).all(|s| {
        let mut g = Rng::from_seed(s);
        let y1 = g.next_raw();
        let y2 = g.next_raw();
        let mut h = Rng::from_seed(y1);
        h.next_raw() == y2
    });
    if !output_is_state {
        return json!({"applicable": false, "why": "next_raw does not return the state (a generator seeded with an output does not continue the stream), so no closed low-bit machine is assumed"});
    }
    let mut rows = vec![];
    let mut all_full = true;
    for k in 1..=16u32 {
        let n = 1u64 << k;
        let mask = n - 1;
        let step = |r: u64| Rng::from_seed(r).next_raw() & mask;
        // well-defined: the low k output bits do not depend on the high seed bits
        let well_defined = (0..n).all(|r| {
            let y = step(r);
            [1u64, 2, 3, 0x5555, 1 << (63 - k), (1 << (64 - k)) - 1].iter().all(|&j| step(r.wrapping_add(j << k)) == y)
        });
        // cycle structure of the map on all 2^k residues
        let mut seen = vec![false; n as usize];
        let mut cycles = 0u64;
        let mut longest = 0u64;
        let mut on_cycles = 0u64;
        for r0 in 0..n {
            if seen[r0 as usize] {
                continue;
            }
            // follow until a seen state; count length if it closes on r0
            let mut r = r0;
            let mut l = 0u64;
            while !seen[r as usize] {
                seen[r as usize] = true;
                r = step(r);
                l += 1;
            }
            if r == r0 {
                cycles += 1;
                longest = longest.max(l);
                on_cycles += l;
            }
        }
        all_full &= well_defined && cycles == 1 && longest == n;
        rows.push(json!({"k": k, "states": n, "low_bits_closed": well_defined, "cycles": cycles, "longest_cycle": longest, "states_on_cycles": on_cycles}));
    }
    json!({"applicable": true,
           "meaning": "next_raw returns the state; the low k bits of the state evolve on their own, so for EVERY seed the stream next(0..2^k) has period equal to the cycle length below",
           "every_k_single_cycle_of_length_2^k": all_full,
           "machines": rows})
}
