//! Generator-level families: determinism, shuffle_*, small_range_not_periodic, and the low-bit
//! machine diagnostic.

use rayon::prelude::*;
use rlib_rand::{Rand, Rng};
use vcore::*;

// ---------------------------------------------------------------------------------------------
// determinism

pub const STREAM_LEN: usize = 64;

fn draw(rng: &mut Rng, i: usize) -> u64 {
    match i % 6 {
        0 => rng.next::<u8, _>(..) as u64,
        1 => rng.next(0..6usize) as u64,
        2 => rng.next(-5..=5i32) as i64 as u64,
        3 => rng.next(0.0..1.0f64).to_bits(),
        4 => rng.next::<u64, _>(..),
        _ => rng.next(..=1000i64) as u64,
    }
}

/// Ok(fingerprint of the reference stream) or Err((mode, message)).
pub fn determinism_one(seed: u64) -> Result<u64, (&'static str, String)> {
    let r = catch(|| {
        let mut a = Rng::from_seed(seed);
        let reference: Vec<u64> = (0..STREAM_LEN).map(|i| draw(&mut a, i)).collect();
        // a second generator from the same seed
        let mut b = Rng::from_seed(seed);
        for i in 0..STREAM_LEN {
            let x = draw(&mut b, i);
            if x != reference[i] {
                return Err(("same_seed", format!("draw {i} of a second generator from seed {seed} is {x}, the first generator gave {}", reference[i])));
            }
        }
        // two fresh generators drawn alternately
        let (mut c, mut d) = (Rng::from_seed(seed), Rng::from_seed(seed));
        for i in 0..STREAM_LEN {
            let (x, y) = (draw(&mut c, i), draw(&mut d, i));
            if x != reference[i] || y != reference[i] {
                return Err(("interleaved", format!("draw {i} of two generators from seed {seed} drawn alternately is {x} / {y}, a generator drawn alone gave {}", reference[i])));
            }
        }
        // a copy taken after 7 draws continues the stream and does not disturb the original
        let mut e = Rng::from_seed(seed);
        for i in 0..7 {
            draw(&mut e, i);
        }
        let mut f = e;
        for i in 7..STREAM_LEN {
            let x = draw(&mut f, i);
            if x != reference[i] {
                return Err(("copy", format!("draw {i} of a copy (taken after 7 draws, seed {seed}) is {x}, the reference stream has {}", reference[i])));
            }
        }
        for i in 7..STREAM_LEN {
            let x = draw(&mut e, i);
            if x != reference[i] {
                return Err(("copy", format!("draw {i} of the original after its copy was drawn from (seed {seed}) is {x}, the reference stream has {}", reference[i])));
            }
        }
        let bytes: Vec<u8> = reference.iter().flat_map(|x| x.to_le_bytes()).collect();
        Ok(fnv(&bytes))
    });
    match r {
        Ok(x) => x,
        Err(p) => Err(("same_seed", format!("panicked while drawing from seed {seed}: {p}"))),
    }
}

pub fn determinism_seeds(dense: u64) -> Vec<u64> {
    let mut s: Vec<u64> = (0..=dense).collect();
    for k in 17..64u32 {
        s.extend([(1u64 << k) - 1, 1u64 << k, (1u64 << k) + 1]);
    }
    s.extend([u64::MAX - 2, u64::MAX - 1, u64::MAX, 42, 0x9e3779b97f4a7c15, 0xdeadbeefcafebabe]);
    let mut seen = std::collections::BTreeSet::new();
    s.retain(|x| seen.insert(*x));
    s
}

pub struct DetReport {
    pub seeds: u64,
    pub distinct_streams: u64,
    pub first: Option<(u64, &'static str, String)>,
    pub failing: u64,
}

pub fn run_determinism(dense: u64) -> DetReport {
    let seeds = determinism_seeds(dense);
    let res: Vec<(usize, Result<u64, (&'static str, String)>)> = seeds.par_iter().enumerate().map(|(i, &s)| (i, determinism_one(s))).collect();
    let mut fps: Vec<u64> = res.iter().filter_map(|r| r.1.as_ref().ok().copied()).collect();
    fps.sort_unstable();
    fps.dedup();
    let failing = res.iter().filter(|r| r.1.is_err()).count() as u64;
    let first = res.iter().find(|r| r.1.is_err()).map(|(i, r)| {
        let (m, msg) = r.as_ref().err().unwrap();
        (seeds[*i], *m, msg.clone())
    });
    DetReport { seeds: seeds.len() as u64, distinct_streams: fps.len() as u64, first, failing }
}

pub fn confirm_determinism(v: &Value) -> Result<(), String> {
    let seed: u64 = v["seed"].as_str().unwrap_or("0").parse().map_err(|_| "bad seed")?;
    // the message deliberately carries no drawn values: a generator that is not a function of its seed
    // need not fail twice in the same way, and the two confirming runs are compared textually
    determinism_one(seed).map(|_| ()).map_err(|_| format!("streams drawn from equal seeds / copies differ for seed {seed} (a generator must be a deterministic function of its seed)"))
}

// ---------------------------------------------------------------------------------------------
// shuffle

pub const MAX_PERM_LEN: usize = 8;
pub const MAX_COUNT_LEN: usize = 6;
const FACT: [usize; 9] = [1, 1, 2, 6, 24, 120, 720, 5040, 40320];

/// Shuffle the identity of `len` elements once with a generator seeded `seed`.
pub fn shuffled(seed: u64, len: usize) -> Result<Vec<u8>, String> {
    catch(|| {
        let mut v: Vec<u8> = (0..len as u8).collect();
        let mut rng = Rng::from_seed(seed);
        rng.shuffle(&mut v);
        v
    })
}

pub fn is_permutation(v: &[u8], len: usize) -> bool {
    if v.len() != len {
        return false;
    }
    let mut seen = [false; 256];
    for &x in v {
        if x as usize >= len || seen[x as usize] {
            return false;
        }
        seen[x as usize] = true;
    }
    true
}

/// Lexicographic rank of a permutation.
pub fn perm_rank(v: &[u8]) -> usize {
    let n = v.len();
    let mut r = 0;
    for i in 0..n {
        let smaller = v[i + 1..].iter().filter(|&&x| x < v[i]).count();
        r += smaller * FACT[n - 1 - i];
    }
    r
}

pub fn perm_unrank(mut r: usize, n: usize) -> Vec<u8> {
    let mut pool: Vec<u8> = (0..n as u8).collect();
    let mut out = vec![];
    for i in 0..n {
        let f = FACT[n - 1 - i];
        out.push(pool.remove(r / f));
        r %= f;
    }
    out
}

#[derive(Clone)]
pub struct ShuffleAcc {
    pub counts: Vec<Vec<u64>>, // [len] -> count per rank (len <= MAX_COUNT_LEN)
    pub non_identity: Vec<u64>, // [len]
    pub shuffles: u64,
    pub bad: u64,
    pub first_bad: Option<(u64, usize, String)>, // (seed, len, observed)
}

impl ShuffleAcc {
    fn new() -> Self {
        ShuffleAcc {
            counts: (0..=MAX_COUNT_LEN).map(|l| vec![0; FACT[l]]).collect(),
            non_identity: vec![0; MAX_PERM_LEN + 1],
            shuffles: 0,
            bad: 0,
            first_bad: None,
        }
    }
    fn merge(mut self, o: Self) -> Self {
        for (a, b) in self.counts.iter_mut().zip(&o.counts) {
            for (x, y) in a.iter_mut().zip(b) {
                *x += y;
            }
        }
        for (x, y) in self.non_identity.iter_mut().zip(&o.non_identity) {
            *x += y;
        }
        self.shuffles += o.shuffles;
        self.bad += o.bad;
        self.first_bad = match (self.first_bad.take(), o.first_bad) {
            (Some(x), Some(y)) => Some(if (x.0, x.1) <= (y.0, y.1) { x } else { y }),
            (x, y) => x.or(y),
        };
        self
    }
}

pub fn run_shuffle(seeds: u64) -> ShuffleAcc {
    (0..seeds)
        .into_par_iter()
        .fold(ShuffleAcc::new, |mut acc, seed| {
            for len in 0..=MAX_PERM_LEN {
                acc.shuffles += 1;
                match shuffled(seed, len) {
                    Ok(v) if is_permutation(&v, len) => {
                        let r = if len <= MAX_COUNT_LEN {
                            let r = perm_rank(&v);
                            acc.counts[len][r] += 1;
                            r
                        } else {
                            v.iter().enumerate().any(|(i, &x)| i != x as usize) as usize
                        };
                        if r != 0 {
                            acc.non_identity[len] += 1;
                        }
                    }
                    other => {
                        acc.bad += 1;
                        let obs = match other {
                            Ok(v) => format!("returned {v:?}"),
                            Err(p) => format!("panicked: {p}"),
                        };
                        if acc.first_bad.as_ref().map_or(true, |f| (seed, len) < (f.0, f.1)) {
                            acc.first_bad = Some((seed, len, obs));
                        }
                    }
                }
            }
            acc
        })
        .reduce(ShuffleAcc::new, ShuffleAcc::merge)
}

pub fn count_perm(seeds: u64, len: usize, perm: &[u8]) -> u64 {
    (0..seeds).into_par_iter().filter(|&s| shuffled(s, len).map_or(false, |v| v == perm)).count() as u64
}

pub fn confirm_shuffle(v: &Value) -> Result<(), String> {
    let fam = v["family"].as_str().unwrap_or("");
    let len = v["len"].as_u64().unwrap_or(0) as usize;
    if fam == "shuffle_is_permutation" {
        let seed: u64 = v["seed"].as_str().unwrap_or("0").parse().map_err(|_| "bad seed")?;
        return match shuffled(seed, len) {
            Ok(p) if is_permutation(&p, len) => Ok(()),
            Ok(p) => Err(format!("shuffling 0..{len} with Rng::from_seed({seed}) returned {p:?}, not a rearrangement")),
            Err(p) => Err(format!("shuffling 0..{len} with Rng::from_seed({seed}) panicked: {p}")),
        };
    }
    let seeds = v["seeds"].as_u64().unwrap_or(0);
    let perm: Vec<u8> = v["perm"].as_array().map(|a| a.iter().map(|x| x.as_u64().unwrap_or(0) as u8).collect()).unwrap_or_default();
    let c = count_perm(seeds, len, &perm);
    let mean = seeds as f64 / FACT[len] as f64;
    if fam == "shuffle_reaches_all" {
        if c > 0 {
            Ok(())
        } else {
            Err(format!("no seed in [0,{seeds}) shuffles 0..{len} into {perm:?} (mean count per rearrangement would be {mean:.1})"))
        }
    } else if (c as f64) < mean / 2.0 || (c as f64) > mean * 2.0 {
        Err(format!("{c} of the seeds in [0,{seeds}) shuffle 0..{len} into {perm:?}; the mean per rearrangement is {mean:.1}, allowed [{:.1}, {:.1}]", mean / 2.0, mean * 2.0))
    } else {
        Ok(())
    }
}

// ---------------------------------------------------------------------------------------------
// serial structure

pub fn period_lens() -> Vec<usize> {
    let mut v: Vec<usize> = (2..=16).collect();
    v.extend([32, 64, 256]);
    v
}

/// Smallest p <= maxp with s[i] == s[i+p] for all i, if any.
pub fn min_period(s: &[usize], maxp: usize) -> Option<usize> {
    (1..=maxp.min(s.len() - 1)).find(|&p| (0..s.len() - p).all(|i| s[i] == s[i + p]))
}

pub fn small_stream(seed: u64, len: usize, draws: usize) -> Result<Vec<usize>, String> {
    catch(|| {
        let mut rng = Rng::from_seed(seed);
        (0..draws).map(|_| rng.next(0..len)).collect()
    })
}

pub struct PeriodReport {
    pub streams: u64,
    pub periodic: u64,
    pub first: Option<(usize, u64, String)>, // (len, seed, what)
    pub periodic_lens: Vec<(usize, u64, usize)>, // (len, number of periodic seeds, smallest period seen)
    pub distinct_streams: u64,
}

pub fn run_period(seeds: u64, draws: usize, maxp: usize) -> PeriodReport {
    let lens = period_lens();
    let jobs: Vec<(usize, u64)> = lens.iter().flat_map(|&l| (0..seeds).map(move |s| (l, s))).collect();
    let res: Vec<(Option<String>, Option<usize>, u64)> = jobs
        .par_iter()
        .map(|&(len, seed)| match small_stream(seed, len, draws) {
            Err(p) => (Some(format!("panicked: {p}")), None, 0),
            Ok(s) => {
                let bytes: Vec<u8> = s.iter().flat_map(|x| (*x as u16).to_le_bytes()).collect();
                let fp = fnv(&bytes) ^ (len as u64).wrapping_mul(0x9e3779b97f4a7c15);
                match min_period(&s, maxp) {
                    Some(p) => (Some(format!("period {p}: {:?}...", &s[..(2 * p).min(12)])), Some(p), fp),
                    None => (None, None, fp),
                }
            }
        })
        .collect();
    let mut rep = PeriodReport { streams: jobs.len() as u64, periodic: 0, first: None, periodic_lens: vec![], distinct_streams: 0 };
    let mut fps: Vec<u64> = res.iter().map(|r| r.2).collect();
    fps.sort_unstable();
    fps.dedup();
    rep.distinct_streams = fps.len() as u64;
    for (j, r) in jobs.iter().zip(&res) {
        if let Some(w) = &r.0 {
            rep.periodic += 1;
            if rep.first.is_none() {
                rep.first = Some((j.0, j.1, w.clone()));
            }
            let p = r.1.unwrap_or(0);
            match rep.periodic_lens.iter_mut().find(|e| e.0 == j.0) {
                Some(e) => {
                    e.1 += 1;
                    e.2 = e.2.min(p);
                }
                None => rep.periodic_lens.push((j.0, 1, p)),
            }
        }
    }
    rep
}

pub fn confirm_period(v: &Value) -> Result<(), String> {
    let len = v["len"].as_u64().unwrap_or(2) as usize;
    let seed: u64 = v["seed"].as_str().unwrap_or("0").parse().map_err(|_| "bad seed")?;
    let draws = v["draws"].as_u64().unwrap_or(4096) as usize;
    let maxp = v["max_period"].as_u64().unwrap_or(1024) as usize;
    match small_stream(seed, len, draws) {
        Err(p) => Err(format!("next(0..{len}) from seed {seed} panicked: {p}")),
        Ok(s) => match min_period(&s, maxp) {
            None => Ok(()),
            Some(p) => Err(format!("the {draws}-draw stream of next(0..{len}) from Rng::from_seed({seed}) is periodic with period {p} (s[i] == s[i+{p}] for all i): {:?}...", &s[..(2 * p).min(12)])),
        },
    }
}

/// Self-test of the period detector on streams that do not come from the library.
pub fn period_detector_selftest() -> Result<(), String> {
    let cyc: Vec<usize> = (0..4096).map(|i| [1usize, 0, 3, 2][i % 4]).collect();
    if min_period(&cyc, 1024) != Some(4) {
        return Err("the period detector does not find period 4 in 1,0,3,2,...".into());
    }
    let cyc: Vec<usize> = (0..4096).map(|i| (i % 1024 == 5) as usize).collect();
    if min_period(&cyc, 1024) != Some(1024) {
        return Err("the period detector does not find period 1024 in a synthetic stream".into());
    }
    // an aperiodic reference stream: splitmix64 written here
    let mut x: u64 = 1;
    let aper: Vec<usize> = (0..4096)
        .map(|_| {
            x = x.wrapping_add(0x9e3779b97f4a7c15);
            let mut z = x;
            z = (z ^ (z >> 30)).wrapping_mul(0xbf58476d1ce4e5b9);
            z = (z ^ (z >> 27)).wrapping_mul(0x94d049bb133111eb);
            ((z ^ (z >> 31)) % 2) as usize
        })
        .collect();
    if min_period(&aper, 1024).is_some() {
        return Err("the period detector reports a period in a splitmix64 bit stream".into());
    }
    // eventually-periodic but with a defect in the last position: not periodic by the definition
    let mut almost: Vec<usize> = (0..4096).map(|i| i % 2).collect();
    almost[4095] = 0;
    if min_period(&almost, 1024).is_some() {
        return Err("the period detector ignores a mismatch in the last draw".into());
    }
    Ok(())
}

// ---------------------------------------------------------------------------------------------
// diagnostic: the low-bit machine (evidence only, never a verdict)

/// If `next_raw` returns the generator's state (tested black-box: a generator seeded with an output
/// continues the stream), then for k <= 16 the map r -> low_k(next_raw(from_seed(r))) on the 2^k
/// residues is enumerated completely and its cycle structure reported.
pub fn lowbit_diagnostic() -> Value {
    let output_is_state = (0..65536u64).chain([u64::MAX, 1 << 63, 0xdeadbeefcafebabe]).all(|s| {
        let mut g = Rng::from_seed(s);
        let y1 = g.next_raw();
        let y2 = g.next_raw();
        let mut h = Rng::from_seed(y1);
        h.next_raw() == y2
    });
    if !output_is_state {
        return json!({"applicable": false, "why": "next_raw does not return the state (a generator seeded with an output does not continue the stream), so no closed low-bit machine is assumed"});
    }
    let mut rows = vec![];
    let mut all_full = true;
    for k in 1..=16u32 {
        let n = 1u64 << k;
        let mask = n - 1;
        let step = |r: u64| Rng::from_seed(r).next_raw() & mask;
        // well-defined: the low k output bits do not depend on the high seed bits
        let well_defined = (0..n).all(|r| {
            let y = step(r);
            [1u64, 2, 3, 0x5555, 1 << (63 - k), (1 << (64 - k)) - 1].iter().all(|&j| step(r.wrapping_add(j << k)) == y)
        });
        // cycle structure of the map on all 2^k residues
        let mut seen = vec![false; n as usize];
        let mut cycles = 0u64;
        let mut longest = 0u64;
        let mut on_cycles = 0u64;
        for r0 in 0..n {
            if seen[r0 as usize] {
                continue;
            }
            // follow until a seen state; count length if it closes on r0
            let mut r = r0;
            let mut l = 0u64;
            while !seen[r as usize] {
                seen[r as usize] = true;
                r = step(r);
                l += 1;
            }
            if r == r0 {
                cycles += 1;
                longest = longest.max(l);
                on_cycles += l;
            }
        }
        all_full &= well_defined && cycles == 1 && longest == n;
        rows.push(json!({"k": k, "states": n, "low_bits_closed": well_defined, "cycles": cycles, "longest_cycle": longest, "states_on_cycles": on_cycles}));
    }
    json!({"applicable": true,
           "meaning": "next_raw returns the state; the low k bits of the state evolve on their own, so for EVERY seed the stream next(0..2^k) has period equal to the cycle length below",
           "every_k_single_cycle_of_length_2^k": all_full,
           "machines": rows})
}
