//! Free-running pass of the C17 harness bodies on REAL threads and the REAL crate (no cfg, no rewrite).
//! Under `cargo +nightly miri run` Miri's vector-clock race detector reports any unsynchronised access
//! pair between the threads, whatever the actual interleaving; natively the binary just prints the
//! outcome (used for the disjoint-or-solo stream rule).
use rlib_treap::{Treap, TreapItem, TreapItemSized, TreapNode, TreePrinter};
use std::sync::{Arc, Mutex};
use std::thread;

include!("../../body.rs");

fn main() {
    let args: Vec<String> = std::env::args().collect();
    let threads: u32 = args.get(1).and_then(|s| s.parse().ok()).unwrap_or(2);
    let k: usize = args.get(2).and_then(|s| s.parse().ok()).unwrap_or(2);
    // the stream a thread gets when it is the only one creating nodes (fresh thread, nothing concurrent)
    let solo = thread::spawn(move || script_caught(1, k, None)).join().unwrap().0;
    // with more than 3 threads: every thread creates its first node before any creates its second
    let o = run_gift(threads, k, false, false, 0, threads > 3, true);
    println!("SOLO {:?}", solo.prios);
    println!("OUTCOME {}", outcome_json(&o));
    match check_results(&o, k, &solo.tie_shape) {
        Ok(()) => println!("RESULTS ok"),
        Err(m) => println!("RESULTS {}", m),
    }
}
