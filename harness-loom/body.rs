// Harness bodies shared by the loom pass (controlled scheduler, DPOR) and the free-running Miri pass.
// The including file provides: Treap, TreapNode, TreapItem, TreapItemSized, `thread` (spawn/yield_now),
// Arc and Mutex of the matching flavour (loom's or std's).

#[derive(Clone, Debug, PartialEq, Eq, PartialOrd, Ord)]
pub struct ThreadResult {
    /// priorities of the nodes this thread created, in creation order
    pub prios: Vec<u32>,
    /// final in-order contents of the thread's treap
    pub seq: Vec<u32>,
    pub size: usize,
    pub removed: u32,
    pub first: u32,
    pub last: u32,
    /// pre-order of a treap merged from three nodes whose priorities were set EQUAL by hand (values
    /// relative to the thread's base): with ties the shape is decided by the tie-break rule alone, which
    /// must not depend on what other threads are doing
    pub tie_shape: Vec<u32>,
    /// Debug rendering of the final treap and of the tie treap (`{:?}` and `TreePrinter`), produced while the
    /// other threads run; compared with the rendering of the same treaps made after all threads were joined
    pub rendered: Vec<String>,
    /// the thread's script panicked
    pub panicked: Option<String>,
}

/// What is kept out of the outcome set: the treaps themselves, handed back for the quiet re-rendering.
pub struct Kept {
    pub trees: Vec<Treap<It>>,
}

/// a treap with the given root, without naming any other field the struct may have
pub fn treap_of(root: Option<Box<TreapNode<It>>>) -> Treap<It> {
    let mut t = Treap::new();
    t.root = root;
    t
}

pub fn render_all(trees: &[Treap<It>]) -> Vec<String> {
    let mut out = vec![];
    for t in trees {
        out.push(format!("{:?}", t));
        out.push(format!("{:?}", TreePrinter::new(t)));
    }
    out
}

#[derive(Clone, Debug, PartialEq, Eq, PartialOrd, Ord)]
pub struct Outcome {
    /// priority drawn by the main thread before spawning
    pub main: u32,
    pub threads: Vec<ThreadResult>,
}

pub struct It {
    pub val: u32,
    pub size: usize,
}

impl std::fmt::Debug for It {
    fn fmt(&self, f: &mut std::fmt::Formatter<'_>) -> std::fmt::Result {
        write!(f, "<{}>", self.val)
    }
}

impl TreapItem for It {
    fn update(&mut self, l: Option<&Self>, r: Option<&Self>) {
        self.size = 1 + l.map_or(0, |x| x.size) + r.map_or(0, |x| x.size);
    }
}

impl TreapItemSized for It {
    fn size(&self) -> usize {
        self.size
    }
}

fn find_prio(node: &Option<Box<TreapNode<It>>>, val: u32) -> Option<u32> {
    let n = node.as_ref()?;
    if n.item.val == val {
        return Some(n.priority);
    }
    find_prio(&n.left, val).or_else(|| find_prio(&n.right, val))
}

/// What thread `t` does with `k >= 2` node creations on a treap only it owns.  With `serial` every
/// operation runs under one harness-wide lock (the reference executions).
pub fn script(t: u32, k: usize, serial: Option<Arc<Mutex<()>>>) -> (ThreadResult, Kept) {
    script_rv(t, k, serial, None)
}

/// `rendezvous = (counter, n)`: after its first node creation the thread waits until all `n` threads have
/// created theirs (free-running pass only): whatever the library registers per thread at its first node
/// creation exists for ALL threads before any of them creates its second node.
pub fn script_rv(t: u32, k: usize, serial: Option<Arc<Mutex<()>>>, rendezvous: Option<(Arc<Mutex<usize>>, usize)>) -> (ThreadResult, Kept) {
    script_gift(t, k, serial, rendezvous, None)
}

/// `gift`: thread 1 creates a two-element treap and hands it over through the slot; thread 2 waits for it,
/// owns it from then on and inserts into it while thread 1 goes on creating nodes of its own: a treap that
/// was MOVED between threads is thread-owned like any other (free-running pass only).
pub fn script_gift(t: u32, k: usize, serial: Option<Arc<Mutex<()>>>, rendezvous: Option<(Arc<Mutex<usize>>, usize)>, gift: Option<Arc<Mutex<Option<Treap<It>>>>>) -> (ThreadResult, Kept) {
    macro_rules! op {
        ($e:expr) => {{
            let _g = serial.as_ref().map(|m| m.lock().unwrap_or_else(|e| e.into_inner()));
            $e
        }};
    }
    let mut prios = vec![];
    let mut moved_in: Option<Treap<It>> = None;
    if let Some(slot) = &gift {
        if t == 1 {
            let mut g = Treap::from_item(It { val: 9000, size: 1 });
            g.insert_at(1, It { val: 9001, size: 1 });
            *slot.lock().unwrap_or_else(|e| e.into_inner()) = Some(g);
        } else if t == 2 {
            // bounded wait: if thread 1 never delivers (it panicked, say) this thread must not spin forever
            for _ in 0..200_000 {
                if let Some(g) = slot.lock().unwrap_or_else(|e| e.into_inner()).take() {
                    moved_in = Some(g);
                    break;
                }
                thread::yield_now();
            }
            assert!(moved_in.is_some(), "the treap that thread 1 was to create and hand over never arrived");
        }
    }
    let mut tr: Treap<It> = Treap::new();
    for i in 0..(k - 1) as u32 {
        if let Some(g) = moved_in.as_mut() {
            // the new owner works on the treap it was given while its creator creates nodes
            g.insert_at(1, It { val: 9100 + i, size: 1 });
            thread::yield_now();
        }
        let node = op!(Treap::from_item(It { val: t * 100 + i, size: 1 }));
        prios.push(node.root.as_ref().unwrap().priority);
        if i == 0 {
            if let Some((counter, n)) = &rendezvous {
                *counter.lock().unwrap_or_else(|e| e.into_inner()) += 1;
                // bounded: a thread that panicked before its first creation never arrives
                for _ in 0..200_000 {
                    if *counter.lock().unwrap_or_else(|e| e.into_inner()) >= *n {
                        break;
                    }
                    thread::yield_now();
                }
            }
        }
        thread::yield_now();
        tr = op!(Treap::merge(tr, node));
        thread::yield_now();
    }
    if let Some(mut g) = moved_in.take() {
        let got: Vec<u32> = g.collect().iter().map(|x| x.val).collect();
        let mut want = vec![9000];
        want.extend((0..(k - 1) as u32).rev().map(|i| 9100 + i));
        want.push(9001);
        assert!(got == want, "the treap that was created on thread 1 and moved to this thread holds {:?}, expected {:?}", got, want);
    }
    // insert_at creates a node as well
    let ins = t * 100 + 50;
    let pos = 1.min(tr.size());
    op!(tr.insert_at(pos, It { val: ins, size: 1 }));
    prios.push(find_prio(&tr.root, ins).expect("inserted node is in the tree"));
    thread::yield_now();
    // rotate: split at 1 and merge the parts the other way round
    let (a, b) = op!(tr.split_at(1));
    let mut tr = op!(Treap::merge(b, a));
    thread::yield_now();
    let removed = op!(tr.remove_at(0)).val;
    // churn: the first element is taken out and put back a few times, so that whatever the library keeps
    // across remove / insert pairs (recycled allocations, caches) is exercised by all threads at once
    if tr.size() > 0 {
        for _ in 0..3 {
            let it = op!(tr.remove_at(0));
            thread::yield_now();
            op!(tr.insert_at(0, it));
            thread::yield_now();
        }
    }
    let size = tr.size();
    let first = tr.first().map_or(u32::MAX, |x| x.val);
    let last = tr.last().map_or(u32::MAX, |x| x.val);
    let seq: Vec<u32> = tr.collect().iter().map(|x| x.val).collect();
    // three single nodes with the same hand-set priority (struct literal: nothing is drawn)
    // (no struct literal of Treap: only its `root` field is relied upon)
    let tied = |v: u32| treap_of(Some(Box::new(TreapNode { item: It { val: v, size: 1 }, priority: 7, left: None, right: None })));
    let ab = op!(Treap::merge(tied(1), tied(2)));
    thread::yield_now();
    let abc = op!(Treap::merge(ab, tied(3)));
    thread::yield_now();
    let (x, y) = op!(abc.split_at(1));
    let back = op!(Treap::merge(x, y));
    let mut tie_shape = vec![];
    fn pre(n: &Option<Box<TreapNode<It>>>, out: &mut Vec<u32>) {
        if let Some(b) = n {
            out.push(b.item.val);
            pre(&b.left, out);
            out.push(0);
            pre(&b.right, out);
        }
    }
    pre(&back.root, &mut tie_shape);
    // printing is an operation on a thread-owned treap like any other
    let trees = vec![tr, back];
    let rendered = op!(render_all(&trees));
    (ThreadResult { prios, seq, size, removed, first, last, tie_shape, rendered, panicked: None }, Kept { trees })
}

/// `script`, with a panic of the code under test turned into a result
pub fn script_caught(t: u32, k: usize, serial: Option<Arc<Mutex<()>>>) -> (ThreadResult, Kept) {
    script_caught_rv(t, k, serial, None)
}

pub fn script_caught_rv(t: u32, k: usize, serial: Option<Arc<Mutex<()>>>, rendezvous: Option<(Arc<Mutex<usize>>, usize)>) -> (ThreadResult, Kept) {
    script_caught_gift(t, k, serial, rendezvous, None)
}

pub fn script_caught_gift(t: u32, k: usize, serial: Option<Arc<Mutex<()>>>, rendezvous: Option<(Arc<Mutex<usize>>, usize)>, gift: Option<Arc<Mutex<Option<Treap<It>>>>>) -> (ThreadResult, Kept) {
    match std::panic::catch_unwind(std::panic::AssertUnwindSafe(|| script_gift(t, k, serial, rendezvous, gift))) {
        Ok(r) => r,
        Err(p) => {
            let msg = p.downcast_ref::<String>().cloned().or_else(|| p.downcast_ref::<&str>().map(|s| s.to_string())).unwrap_or_else(|| "panic".into());
            (ThreadResult { prios: vec![], seq: vec![], size: 0, removed: 0, first: 0, last: 0, tie_shape: vec![], rendered: vec![], panicked: Some(msg) }, Kept { trees: vec![] })
        }
    }
}

/// A treap as tall as it is large: a right path of `n` nodes built by struct literals (priorities are a
/// public field, so this is a legal treap; nothing is drawn), then operations whose recursion runs down the
/// whole spine.  Whatever the library shares between threads per level of recursion (depth counters,
/// scratch stacks) is exercised `n` times per operation here.
pub fn tall_script(t: u32, n: usize, serial: Option<Arc<Mutex<()>>>) -> (ThreadResult, Kept) {
    macro_rules! op {
        ($e:expr) => {{
            let _g = serial.as_ref().map(|m| m.lock().unwrap_or_else(|e| e.into_inner()));
            $e
        }};
    }
    let base = t * 1000;
    let mut root: Option<Box<TreapNode<It>>> = None;
    for i in (0..n).rev() {
        root = Some(Box::new(TreapNode { item: It { val: base + i as u32, size: n - i }, priority: 10 + i as u32, left: None, right: root }));
    }
    let tr = treap_of(root);
    thread::yield_now();
    let (a, b) = op!(tr.split_at(n / 2));
    thread::yield_now();
    let mut tr = op!(Treap::merge(a, b));
    thread::yield_now();
    let removed = op!(tr.remove_at(n - 1)).val;
    thread::yield_now();
    // the new last element: its drawn priority may send it anywhere up the spine
    op!(tr.insert_at(n - 1, It { val: base + 999, size: 1 }));
    let prios = vec![find_prio(&tr.root, base + 999).expect("inserted node is in the tree")];
    thread::yield_now();
    let (a, b) = op!(tr.split_at(1));
    let mut tr = op!(Treap::merge(a, b));
    let size = tr.size();
    let first = tr.first().map_or(u32::MAX, |x| x.val);
    let last = tr.last().map_or(u32::MAX, |x| x.val);
    let seq: Vec<u32> = op!(tr.collect()).iter().map(|x| x.val).collect();
    (ThreadResult { prios, seq, size, removed, first, last, tie_shape: vec![], rendered: vec![], panicked: None }, Kept { trees: vec![] })
}

pub fn tall_caught(t: u32, n: usize, serial: Option<Arc<Mutex<()>>>) -> (ThreadResult, Kept) {
    match std::panic::catch_unwind(std::panic::AssertUnwindSafe(|| tall_script(t, n, serial))) {
        Ok(r) => r,
        Err(p) => {
            let msg = p.downcast_ref::<String>().cloned().or_else(|| p.downcast_ref::<&str>().map(|s| s.to_string())).unwrap_or_else(|| "panic".into());
            (ThreadResult { prios: vec![], seq: vec![], size: 0, removed: 0, first: 0, last: 0, tie_shape: vec![], rendered: vec![], panicked: Some(msg) }, Kept { trees: vec![] })
        }
    }
}

/// Results of `tall_script` that do not depend on priorities.
pub fn check_tall(o: &Outcome, n: usize) -> Result<(), String> {
    if o.main == u32::MAX {
        return Err("the helper thread's single node creation panicked".to_string());
    }
    for (i, t) in o.threads.iter().enumerate() {
        let base = (i as u32 + 1) * 1000;
        if let Some(m) = &t.panicked {
            return Err(format!("thread {} panicked inside its operations on a path-shaped treap of {} nodes ({}); the same operations alone do not", i + 1, n, m));
        }
        let mut seq: Vec<u32> = (0..n as u32 - 1).map(|j| base + j).collect();
        seq.push(base + 999);
        if t.seq != seq || t.removed != base + n as u32 - 1 || t.size != n || t.first != base || t.last != base + 999 {
            return Err(format!("thread {} on a path-shaped treap of {} nodes: removed {} size {} first {} last {} collect {:?}…; alone the same operations give removed {} size {} first {} last {}", i + 1, n, t.removed, t.size, t.first, t.last, &t.seq[..t.seq.len().min(6)], base + n as u32 - 1, n, base, base + 999));
        }
    }
    Ok(())
}

/// The same script on a plain vector.
pub fn expected(t: u32, k: usize) -> (Vec<u32>, u32) {
    let mut v: Vec<u32> = (0..(k - 1) as u32).map(|i| t * 100 + i).collect();
    let pos = 1.min(v.len());
    v.insert(pos, t * 100 + 50);
    let tail = v.split_off(1);
    let mut w = tail;
    w.extend(v);
    let removed = w.remove(0);
    (w, removed)
}

/// `cold`: no node is created before the threads are spawned, so their first node creations are the first
/// of the whole process (lazily initialised shared state is still uninitialised).  Otherwise a helper
/// thread creates one node and is joined first.  The thread that runs this function never creates a node
/// itself: under loom it is the model's root thread, whose thread-local destructors run only after loom has
/// torn down its statics.
pub fn run_once(threads: u32, k: usize, serial: bool, cold: bool) -> Outcome {
    run_any(threads, k, serial, cold, 0)
}

/// `tall > 0`: every thread runs `tall_script` on a hand-built path of `tall` nodes instead of `script`.
pub fn run_any(threads: u32, k: usize, serial: bool, cold: bool, tall: usize) -> Outcome {
    run_full(threads, k, serial, cold, tall, false)
}

pub fn run_full(threads: u32, k: usize, serial: bool, cold: bool, tall: usize, rendezvous: bool) -> Outcome {
    run_gift(threads, k, serial, cold, tall, rendezvous, false)
}

pub fn run_gift(threads: u32, k: usize, serial: bool, cold: bool, tall: usize, rendezvous: bool, gift: bool) -> Outcome {
    let lock = if serial { Some(Arc::new(Mutex::new(()))) } else { None };
    let main = if cold {
        0
    } else {
        thread::spawn(|| std::panic::catch_unwind(|| TreapNode::new(It { val: 0, size: 1 }).priority).unwrap_or(u32::MAX)).join().unwrap()
    };
    let counter = Arc::new(Mutex::new(0usize));
    let slot: Arc<Mutex<Option<Treap<It>>>> = Arc::new(Mutex::new(None));
    let hs: Vec<_> = (1..=threads)
        .map(|t| {
            let l = lock.clone();
            let rv = if rendezvous { Some((counter.clone(), threads as usize)) } else { None };
            let gf = if gift && threads >= 2 { Some(slot.clone()) } else { None };
            // tall treaps recurse as deep as they are tall
            thread::Builder::new().stack_size(4 << 20).spawn(move || if tall > 0 { tall_caught(t, tall, l) } else { script_caught_gift(t, k, l, rv, gf) }).unwrap()
        })
        .collect();
    let mut results: Vec<(ThreadResult, Kept)> = hs.into_iter().map(|h| h.join().unwrap()).collect();
    // everything is quiet now: render the same treaps again
    for (r, kept) in results.iter_mut() {
        if r.panicked.is_none() {
            let quiet = render_all(&kept.trees);
            if quiet != r.rendered {
                r.rendered.push("DIFFERS-FROM-QUIET-RENDERING".to_string());
                r.rendered.extend(quiet);
            }
        }
    }
    Outcome { main, threads: results.into_iter().map(|x| x.0).collect() }
}

pub fn outcome_json(o: &Outcome) -> String {
    let ts: Vec<String> = o
        .threads
        .iter()
        .map(|t| {
            format!(
                "{{\"prios\":{:?},\"seq\":{:?},\"size\":{},\"removed\":{},\"first\":{},\"last\":{},\"tie_shape\":{:?},\"panicked\":{:?}}}",
                t.prios, t.seq, t.size, t.removed, t.first, t.last, t.tie_shape, t.panicked.as_deref().unwrap_or("")
            )
        })
        .collect();
    format!("{{\"main\":{},\"threads\":[{}]}}", o.main, ts.join(","))
}

/// Results that do not depend on priorities must equal the script run on a vector.
pub fn check_results(o: &Outcome, k: usize, solo_tie_shape: &[u32]) -> Result<(), String> {
    if o.main == u32::MAX {
        return Err("the helper thread's single node creation panicked".to_string());
    }
    for (i, t) in o.threads.iter().enumerate() {
        if let Some(m) = &t.panicked {
            return Err(format!("thread {} panicked inside its treap operations ({}); the same operations alone do not", i + 1, m));
        }
        if let Some(pos) = t.rendered.iter().position(|x| x == "DIFFERS-FROM-QUIET-RENDERING") {
            return Err(format!("thread {} printed its treaps ({{:?}} and TreePrinter) as {:?} while the other threads were running; printed again after all threads were joined the same treaps give {:?}", i + 1, &t.rendered[..pos], &t.rendered[pos + 1..]));
        }
        if t.tie_shape != solo_tie_shape {
            return Err(format!("thread {} merged three equal-priority nodes into the shape {:?} (pre-order, 0 = end of left subtree); the same operations alone give {:?}", i + 1, t.tie_shape, solo_tie_shape));
        }
        let (seq, removed) = expected(i as u32 + 1, k);
        if t.seq != seq || t.removed != removed || t.size != seq.len() || Some(&t.first) != seq.first() || Some(&t.last) != seq.last() {
            return Err(format!("thread {} observed seq {:?} removed {} size {} first {} last {}; the same operations alone give seq {:?} removed {}", i + 1, t.seq, t.removed, t.size, t.first, t.last, seq, removed));
        }
        if t.prios.len() != k {
            return Err(format!("thread {} recorded {} priorities for {} node creations", i + 1, t.prios.len(), k));
        }
    }
    Ok(())
}
