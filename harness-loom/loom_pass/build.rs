//! Copies every source file of /repo/rlib/treap/src into OUT_DIR (lib.rs with its `mod` items turned into
//! includes, so the crate's module tree is reproduced at the root of this harness crate), rerouting every synchronisation
//! primitive and every piece of process-wide state they use to loom's model of it, so that loom owns
//! (and resets between executions) whatever the treap crate shares between threads.
//!
//! Rewrites (purely textual, semantics preserving):
//!   thread_local! { … }                         -> loom::thread_local! { … }
//!   std::sync:: / core::sync::                   -> loom::sync::
//!   std::thread::                                -> loom::thread::
//!   static NAME: T = EXPR;   (not `static mut`)  -> loom::lazy_static! { static ref NAME: T = EXPR; }
//! `static mut` and raw UnsafeCell wrappers are left alone: loom cannot see them, the free-running Miri
//! pass does.
use std::{env, fs, path::PathBuf};

fn find_matching(s: &[u8], open_at: usize) -> usize {
    let mut depth = 0i32;
    let mut i = open_at;
    while i < s.len() {
        match s[i] {
            b'{' => depth += 1,
            b'}' => {
                depth -= 1;
                if depth == 0 {
                    return i;
                }
            }
            _ => {}
        }
        i += 1;
    }
    s.len() - 1
}

fn rewrite(src: &str) -> (String, Vec<String>) {
    let mut notes = vec![];
    // 1. split into thread_local! blocks (kept verbatim apart from the macro path) and the rest
    let mut out = String::new();
    let mut rest = src;
    loop {
        match rest.find("thread_local!") {
            None => {
                out.push_str(&rewrite_statics(rest, &mut notes));
                break;
            }
            Some(i) => {
                // strip a leading path such as `std::`
                let mut head = &rest[..i];
                for p in ["::std::", "std::", "loom::"] {
                    if head.ends_with(p) {
                        head = &head[..head.len() - p.len()];
                    }
                }
                out.push_str(&rewrite_statics(head, &mut notes));
                let open = rest[i..].find('{').map(|k| k + i).unwrap_or(rest.len() - 1);
                let close = find_matching(rest.as_bytes(), open);
                out.push_str("loom::thread_local!");
                out.push_str(&rest[i + "thread_local!".len()..=close]);
                notes.push("thread_local! -> loom::thread_local!".to_string());
                rest = &rest[close + 1..];
            }
        }
    }
    let mut s = out;
    for (a, b) in [("::std::sync::", "loom::sync::"), ("std::sync::", "loom::sync::"), ("core::sync::", "loom::sync::"), ("::std::thread::", "loom::thread::"), ("std::thread::", "loom::thread::")] {
        if s.contains(a) {
            notes.push(format!("{a} -> {b}"));
            s = s.replace(a, b);
        }
    }
    for (a, b) in [("use std::sync;", "use loom::sync;"), ("use std::thread;", "use loom::thread;")] {
        if s.contains(a) {
            notes.push(format!("{a} -> {b}"));
            s = s.replace(a, b);
        }
    }
    (s, notes)
}

/// `static NAME: T = EXPR;` -> lazy_static (loom's atomics / mutexes are not const-constructible and
/// must be re-created for every execution)
fn rewrite_statics(s: &str, notes: &mut Vec<String>) -> String {
    let mut out = String::new();
    let mut rest = s;
    loop {
        let pos = find_static(rest);
        match pos {
            None => {
                out.push_str(rest);
                return out;
            }
            Some(i) => {
                out.push_str(&rest[..i]);
                // the `;` that ends the item: not one inside brackets (array types `[T; N]`, array values)
                let semi = {
                    let mut depth = 0i32;
                    let mut found = None;
                    for (k, ch) in rest[i..].char_indices() {
                        match ch {
                            '[' | '(' | '{' => depth += 1,
                            ']' | ')' | '}' => depth -= 1,
                            ';' if depth == 0 => {
                                found = Some(k + i);
                                break;
                            }
                            _ => {}
                        }
                    }
                    match found {
                        Some(k) => k,
                        None => {
                            out.push_str(&rest[i..]);
                            return out;
                        }
                    }
                };
                let decl = &rest[i..semi]; // "static NAME: T = EXPR" possibly preceded by pub
                let body = decl.trim_start_matches("pub ").trim_start_matches("pub(crate) ");
                let body = body.trim_start_matches("static ");
                out.push_str(&format!("loom::lazy_static! {{ static ref {}; }}", body));
                notes.push(format!("static {} -> loom::lazy_static", body.split(':').next().unwrap_or("?").trim()));
                rest = &rest[semi + 1..];
            }
        }
    }
}

/// byte offset of the next `static NAME` item that is not `static mut` and not a `'static` lifetime
fn find_static(s: &str) -> Option<usize> {
    let b = s.as_bytes();
    let mut from = 0;
    while let Some(k) = s[from..].find("static ") {
        let i = from + k;
        let prev_ok = i == 0 || matches!(b[i - 1], b' ' | b'\n' | b'\t' | b'{' | b';');
        let is_lifetime = i > 0 && b[i - 1] == b'\'';
        let after = &s[i + 7..];
        if prev_ok && !is_lifetime && !after.trim_start().starts_with("mut ") && !after.trim_start().starts_with("ref ") {
            // include a leading `pub ` if present
            let start = if s[..i].ends_with("pub ") { i - 4 } else { i };
            return Some(start);
        }
        from = i + 7;
    }
    None
}

/// lib.rs: `mod NAME;` -> `mod NAME { include!(OUT_DIR/NAME.rs) }` so that the crate's own module tree (and
/// its `pub use` lines) is reproduced at the root of the harness crate, whatever files it consists of
fn rewrite_mods(s: &str) -> String {
    let mut out = String::new();
    for line in s.lines() {
        let t = line.trim();
        let body = t.trim_start_matches("pub(crate) ").trim_start_matches("pub ");
        if let Some(name) = body.strip_prefix("mod ").and_then(|r| r.strip_suffix(';')) {
            let name = name.trim();
            if name.chars().all(|c| c.is_alphanumeric() || c == '_') {
                out.push_str(&format!("pub mod {name} {{ include!(concat!(env!(\"OUT_DIR\"), \"/{name}.rs\")); }}\n"));
                continue;
            }
        }
        out.push_str(line);
        out.push('\n');
    }
    out
}

fn main() {
    let out = PathBuf::from(env::var("OUT_DIR").unwrap());
    let src_dir = PathBuf::from(env::var("VERIF_TREAP_SRC").unwrap_or_else(|_| "/repo/rlib/treap/src".to_string()));
    println!("cargo:rerun-if-changed={}", src_dir.display());
    let mut files: Vec<String> = fs::read_dir(&src_dir)
        .expect("treap source directory")
        .filter_map(|e| e.ok())
        .map(|e| e.file_name().to_string_lossy().into_owned())
        .filter(|n| n.ends_with(".rs"))
        .collect();
    files.sort();
    let mut all_notes = vec![];
    let mut has_static_mut = false;
    for f in &files {
        let p = src_dir.join(f);
        println!("cargo:rerun-if-changed={}", p.display());
        let src = fs::read_to_string(&p).expect("treap source");
        has_static_mut |= src.contains("static mut");
        let (mut dst, notes) = rewrite(&src);
        if f == "lib.rs" {
            dst = rewrite_mods(&dst);
        }
        for n in notes {
            all_notes.push(format!("{f}: {n}"));
        }
        fs::write(out.join(f), dst).unwrap();
    }
    println!("cargo:rerun-if-env-changed=VERIF_TREAP_SRC");
    fs::write(out.join("rewrite_notes.rs"), format!("pub const REWRITES: &[&str] = &{:?};\npub const HAS_STATIC_MUT: bool = {};\n", all_notes, has_static_mut)).unwrap();
}
