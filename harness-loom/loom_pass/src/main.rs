//! C17, schedule exploration: the treap crate's own source (copied by build.rs with its shared state
//! rerouted to loom) under loom's DPOR with a preemption bound.
//!
//! Phase 1 explores the harness with every operation under one harness lock: the set of outcomes
//! (per-thread priority streams + treap results) that SERIALISED executions of this implementation
//! produce.  Phase 2 explores it unserialised: every outcome must be one of those.
#![allow(dead_code, unused_imports, static_mut_refs)]

// the treap crate's own lib.rs (modules + re-exports), rewritten by build.rs
include!(concat!(env!("OUT_DIR"), "/lib.rs"));
mod notes {
    include!(concat!(env!("OUT_DIR"), "/rewrite_notes.rs"));
}

use loom::sync::{Arc, Mutex};
use loom::thread;

include!("../../body.rs");

use std::collections::BTreeSet;
use std::sync::atomic::{AtomicU64, Ordering};
use std::sync::Mutex as StdMutex;

static EXECS: AtomicU64 = AtomicU64::new(0);
static OUTCOMES: StdMutex<BTreeSet<Outcome>> = StdMutex::new(BTreeSet::new());

static FIRST_BAD: StdMutex<Option<String>> = StdMutex::new(None);

/// Set by the orchestrator for a second run when the first one showed that the priority drawn by the helper
/// thread before anything else happens differs from execution to execution although the source has no
/// `static mut`: the generator is seeded from something outside the program (the clock, an address), so
/// priority values cannot be compared between executions; everything else still is.
fn no_prios() -> bool {
    std::env::var("C17_NO_PRIOS").map_or(false, |v| v == "1")
}
struct StopExploring;

/// Explores `run_once` under loom.  Results that can be judged per execution (a panic inside a thread's
/// operations, sequence contents, tie shapes, renderings) are judged at once, and the first bad one ends
/// the exploration; the outcome SET is returned for the serialisability comparison.  `cap_s` bounds the wall
/// time of one exploration (reported as CAPPED; what was explored until then still counts).
fn explore(threads: u32, k: usize, serial: bool, bound: Option<usize>, cold: bool, solo_shape: Option<Vec<u32>>, cap_s: u64, tall: usize) -> (u64, BTreeSet<Outcome>, bool) {
    EXECS.store(0, Ordering::SeqCst);
    OUTCOMES.lock().unwrap().clear();
    let mut b = loom::model::Builder::new();
    b.preemption_bound = bound;
    b.max_branches = 100_000;
    b.max_duration = Some(std::time::Duration::from_secs(cap_s));
    let t0 = std::time::Instant::now();
    let r = std::panic::catch_unwind(std::panic::AssertUnwindSafe(|| {
        b.check(move || {
            let o = run_any(threads, k, serial, cold, tall);
            EXECS.fetch_add(1, Ordering::SeqCst);
            if let Some(shape) = &solo_shape {
                if let Err(m) = if tall > 0 { check_tall(&o, tall) } else { check_results(&o, k, shape) } {
                    let mut fb = FIRST_BAD.lock().unwrap();
                    if fb.is_none() {
                        *fb = Some(format!("{} :: {}", m, outcome_json(&o)));
                    }
                    drop(fb);
                    std::panic::panic_any(StopExploring);
                }
            }
            let mut o = o;
            if no_prios() {
                // priorities are not a function of the schedule (see `no_prios`): keep what does not depend
                // on them for the comparison of outcome SETS (everything was judged per execution above)
                for t in o.threads.iter_mut() {
                    t.prios.clear();
                    t.rendered.clear();
                }
            }
            OUTCOMES.lock().unwrap_or_else(|e| e.into_inner()).insert(o);
        })
    }));
    if let Err(p) = r {
        if p.downcast_ref::<StopExploring>().is_none() {
            std::panic::resume_unwind(p);
        }
    }
    let capped = t0.elapsed().as_secs() >= cap_s;
    (EXECS.load(Ordering::SeqCst), OUTCOMES.lock().unwrap_or_else(|e| e.into_inner()).clone(), capped)
}

fn main() {
    let args: Vec<String> = std::env::args().collect();
    let threads: u32 = args.get(1).and_then(|s| s.parse().ok()).unwrap_or(2);
    let k: usize = args.get(2).and_then(|s| s.parse().ok()).unwrap_or(2);
    let bound: Option<usize> = args.get(3).and_then(|s| s.parse().ok());
    println!("REWRITES {:?}", notes::REWRITES);
    println!("HAS_STATIC_MUT {}", notes::HAS_STATIC_MUT);
    // the shape a thread's tie-merges produce when it is alone
    let solo_shape = {
        OUTCOMES.lock().unwrap().clear();
        let mut b = loom::model::Builder::new();
        b.preemption_bound = bound;
        b.check(move || {
            let o = run_once(1, k, false, false);
            OUTCOMES.lock().unwrap().insert(o);
        });
        let set = OUTCOMES.lock().unwrap().clone();
        let shapes: BTreeSet<Vec<u32>> = set.iter().map(|o| o.threads[0].tie_shape.clone()).collect();
        println!("SOLO_SHAPES {}", shapes.len());
        shapes.into_iter().next().unwrap_or_default()
    };
    let cap_s: u64 = args.get(4).and_then(|s| s.parse().ok()).unwrap_or(60);
    let mut capped = vec![];
    let (n1, rseq, c1) = explore(threads, k, true, bound, false, None, cap_s, 0);
    println!("SERIAL executions={} outcomes={}", n1, rseq.len());
    let (n2, rpar, c2) = explore(threads, k, false, bound, false, Some(solo_shape.clone()), cap_s, 0);
    println!("PARALLEL executions={} outcomes={}", n2, rpar.len());
    // cold start: nothing has created a node before the threads do
    let (n3, cseq, c3) = explore(threads, k, true, bound, true, None, cap_s, 0);
    let (n4, cpar, c4) = explore(threads, k, false, bound, true, Some(solo_shape.clone()), cap_s, 0);
    println!("COLD serial_executions={} serial_outcomes={} executions={} outcomes={}", n3, cseq.len(), n4, cpar.len());
    // tall treaps: recursion as deep as the tree, on all threads at once
    let tall: usize = args.get(5).and_then(|s| s.parse().ok()).unwrap_or(0);
    let (mut tseq, mut tpar) = (BTreeSet::new(), BTreeSet::new());
    let (mut c5, mut c6) = (false, false);
    if tall > 0 {
        let (n5, s5, cc5) = explore(threads, k, true, bound, false, None, cap_s, tall);
        let (n6, s6, cc6) = explore(threads, k, false, bound, false, Some(vec![]), cap_s, tall);
        println!("TALL n={} serial_executions={} serial_outcomes={} executions={} outcomes={}", tall, n5, s5.len(), n6, s6.len());
        tseq = s5;
        tpar = s6;
        c5 = cc5;
        c6 = cc6;
    }
    for (c, what) in [(c5, "tall serialised"), (c6, "tall unserialised")] {
        if c {
            capped.push(what);
        }
    }
    for (c, what) in [(c1, "warm serialised"), (c2, "warm unserialised"), (c3, "cold serialised"), (c4, "cold unserialised")] {
        if c {
            capped.push(what);
        }
    }
    println!("CAPPED {:?} cap_s={}", capped, cap_s);
    // self-check: the generator state must be re-created for every execution, otherwise loom is not
    // looking at it (the main thread draws first, before anything can interfere)
    let mains: BTreeSet<u32> = rseq.iter().chain(rpar.iter()).map(|o| o.main).collect();
    println!("MAIN_DRAW_VALUES {}", mains.len());
    let strip = |set: BTreeSet<Outcome>| -> BTreeSet<Outcome> {
        if !no_prios() {
            return set;
        }
        set.into_iter()
            .map(|mut o| {
                o.main = if o.main == u32::MAX { u32::MAX } else { 0 };
                o
            })
            .collect()
    };
    let (rseq, rpar, cseq, cpar, tseq, tpar) = (strip(rseq), strip(rpar), strip(cseq), strip(cpar), strip(tseq), strip(tpar));
    for o in rpar.iter().take(3) {
        println!("SAMPLE {}", outcome_json(o));
    }
    let mut bad = 0;
    if let Some(m) = FIRST_BAD.lock().unwrap().clone() {
        println!("BAD_RESULTS [first bad execution] {}", m);
        bad += 1;
    }
    for (set, reference, label, ref_capped) in [(&rpar, &rseq, "warm", c1), (&cpar, &cseq, "cold", c3)] {
        for o in set.iter() {
            if no_prios() {
                // judged per execution already, before the priorities were dropped
                break;
            }
            if let Err(m) = check_results(o, k, &solo_shape) {
                println!("BAD_RESULTS [{label}] {} :: {}", m, outcome_json(o));
                bad += 1;
                break;
            }
        }
        // an incomplete reference set cannot refute membership
        if ref_capped {
            continue;
        }
        for o in set.iter() {
            if !reference.contains(o) {
                println!("NOT_SERIALISABLE [{label} start] {}", outcome_json(o));
                bad += 1;
                break;
            }
        }
    }
    if tall > 0 && !c5 {
        for o in tpar.iter() {
            if !tseq.contains(o) {
                println!("NOT_SERIALISABLE [tall treaps] {}", outcome_json(o));
                bad += 1;
                break;
            }
        }
    }
    println!("DONE bad={}", bad);
}
