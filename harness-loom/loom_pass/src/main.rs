//! C17, schedule exploration: the treap crate's own source (copied by build.rs with its shared state
//! rerouted to loom) under loom's DPOR with a preemption bound.
//!
//! Phase 1 explores the harness with every operation under one harness lock: the set of outcomes
//! (per-thread priority streams + treap results) that SERIALISED executions of this implementation
//! produce.  Phase 2 explores it unserialised: every outcome must be one of those.
#![allow(dead_code, unused_imports, static_mut_refs)]

mod treap_node {
    include!(concat!(env!("OUT_DIR"), "/treap_node.rs"));
}
mod treap {
    include!(concat!(env!("OUT_DIR"), "/treap.rs"));
}
mod notes {
    include!(concat!(env!("OUT_DIR"), "/rewrite_notes.rs"));
}

use loom::sync::{Arc, Mutex};
use loom::thread;
use treap::Treap;
use treap_node::{TreapItem, TreapItemSized, TreapNode};

include!("../../body.rs");

use std::collections::BTreeSet;
use std::sync::atomic::{AtomicU64, Ordering};
use std::sync::Mutex as StdMutex;

static EXECS: AtomicU64 = AtomicU64::new(0);
static OUTCOMES: StdMutex<BTreeSet<Outcome>> = StdMutex::new(BTreeSet::new());

fn explore(threads: u32, k: usize, serial: bool, bound: Option<usize>, cold: bool) -> (u64, BTreeSet<Outcome>) {
    EXECS.store(0, Ordering::SeqCst);
    OUTCOMES.lock().unwrap().clear();
    let mut b = loom::model::Builder::new();
    b.preemption_bound = bound;
    b.max_branches = 100_000;
    b.check(move || {
        let o = run_once(threads, k, serial, cold);
        EXECS.fetch_add(1, Ordering::SeqCst);
        OUTCOMES.lock().unwrap().insert(o);
    });
    (EXECS.load(Ordering::SeqCst), OUTCOMES.lock().unwrap().clone())
}

fn main() {
    let args: Vec<String> = std::env::args().collect();
    let threads: u32 = args.get(1).and_then(|s| s.parse().ok()).unwrap_or(2);
    let k: usize = args.get(2).and_then(|s| s.parse().ok()).unwrap_or(2);
    let bound: Option<usize> = args.get(3).and_then(|s| s.parse().ok());
    println!("REWRITES {:?}", notes::REWRITES);
    println!("HAS_STATIC_MUT {}", notes::HAS_STATIC_MUT);
    // the shape a thread's tie-merges produce when it is alone
    let solo_shape = {
        OUTCOMES.lock().unwrap().clear();
        let mut b = loom::model::Builder::new();
        b.preemption_bound = bound;
        b.check(move || {
            let o = run_once(1, k, false, false);
            OUTCOMES.lock().unwrap().insert(o);
        });
        let set = OUTCOMES.lock().unwrap().clone();
        let shapes: BTreeSet<Vec<u32>> = set.iter().map(|o| o.threads[0].tie_shape.clone()).collect();
        println!("SOLO_SHAPES {}", shapes.len());
        shapes.into_iter().next().unwrap_or_default()
    };
    let (n1, rseq) = explore(threads, k, true, bound, false);
    println!("SERIAL executions={} outcomes={}", n1, rseq.len());
    let (n2, rpar) = explore(threads, k, false, bound, false);
    println!("PARALLEL executions={} outcomes={}", n2, rpar.len());
    // cold start: nothing has created a node before the threads do
    let (n3, cseq) = explore(threads, k, true, bound, true);
    let (n4, cpar) = explore(threads, k, false, bound, true);
    println!("COLD serial_executions={} serial_outcomes={} executions={} outcomes={}", n3, cseq.len(), n4, cpar.len());
    // self-check: the generator state must be re-created for every execution, otherwise loom is not
    // looking at it (the main thread draws first, before anything can interfere)
    let mains: BTreeSet<u32> = rseq.iter().chain(rpar.iter()).map(|o| o.main).collect();
    println!("MAIN_DRAW_VALUES {}", mains.len());
    for o in rpar.iter().take(3) {
        println!("SAMPLE {}", outcome_json(o));
    }
    let mut bad = 0;
    for (set, reference, label) in [(&rpar, &rseq, "warm"), (&cpar, &cseq, "cold")] {
        for o in set.iter() {
            if let Err(m) = check_results(o, k, &solo_shape) {
                println!("BAD_RESULTS [{label}] {} :: {}", m, outcome_json(o));
                bad += 1;
                break;
            }
        }
        for o in set.iter() {
            if !reference.contains(o) {
                println!("NOT_SERIALISABLE [{label} start] {}", outcome_json(o));
                bad += 1;
                break;
            }
        }
    }
    println!("DONE bad={}", bad);
}
