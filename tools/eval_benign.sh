#!/bin/bash
# usage: eval_benign.sh <patch.diff> <Cxx> [<Cyy> ...]  — applies a behaviour-preserving patch to /repo, runs the quick
# checks (each must exit 0), always reverts.
P="$(realpath "$1")"; shift
cd /repo || exit 2
if [ -n "$(git status --porcelain --untracked-files=no)" ]; then echo "/repo dirty; refusing"; exit 2; fi
git apply "$P" || { echo "$(basename $P): does not apply"; exit 2; }
trap 'git -C /repo checkout -- . ; git -C /repo clean -qfd rlib' EXIT
for c in "$@"; do
  OUT="$(cd /verif && ./check $c quick 2>&1)"; RC=$?
  echo "benign=$(basename "$P") check=$c exit=$RC $(echo "$OUT" | grep -E 'signature|MACHINERY' | head -1 | cut -c1-200)"
done
