#!/bin/bash
# usage: eval_seed.sh <dir with patch.diff demo.rs demo_path.txt> <Cxx> [suffix: "" or 2] [--thorough]
# A. confirms in a scratch worktree (outside /repo and /verif) that the change compiles, passes the
#    repository's own suite, fails its demonstration, and that the demonstration passes without it;
# B. applies it to /repo, runs the check(s), and ALWAYS reverts /repo.
set -u
D="$(realpath "$1")"; PROP="$2"; SUF="${3:-}"; [ "$SUF" = "--thorough" ] && SUF=""
THOROUGH=0; for a in "$@"; do [ "$a" = "--thorough" ] && THOROUGH=1; done
PATCH="$D/patch$SUF.diff"; DEMO="$D/demo$SUF.rs"; DPATH="$(cat "$D/demo${SUF}_path.txt" | tr -d '[:space:]')"
WT=/tmp/evalwt${SLOT:-}
export CARGO_TARGET_DIR=/tmp/evalwt${SLOT:-}-target CARGO_NET_OFFLINE=true
ONLY="${ONLY:-AB}"
if [ ! -d "$WT" ]; then git -C /repo worktree add --detach "$WT" HEAD >/dev/null 2>&1 || { echo "cannot create worktree"; exit 2; }; fi
cd "$WT" && git checkout -q --detach "$(git -C /repo rev-parse HEAD)" && git checkout -q -- . && git clean -qfd rlib tools 2>/dev/null
CRATE="rlib_$(echo "$DPATH" | cut -d/ -f2)"
TESTNAME="$(basename "$DPATH" .rs)"
res() { echo "  $1"; }
echo "== seed $(basename "$(dirname "$D")")/$(basename "$D") patch$SUF for $PROP (crate $CRATE)"
if [[ "$ONLY" == *A* ]]; then
git apply --check "$PATCH" 2>/dev/null || { res "A0 patch does not apply: INVALID"; exit 3; }
git apply "$PATCH"
if ! cargo build --offline --workspace -q 2>/tmp/evalwt${SLOT:-}-build.log; then res "A1 does not compile: INVALID"; git checkout -q -- .; exit 3; fi
SUITE=$(cargo test --offline --workspace --no-fail-fast 2>&1 | grep -E "^test result" | awk '{p+=$4; f+=$6} END {print p" passed "f" failed"}')
res "A2 repository suite with the change: $SUITE"
mkdir -p "$(dirname "$DPATH")"; cp "$DEMO" "$DPATH"
if cargo test --offline -q ${DEMO_FLAGS:-} -p "$CRATE" --test "$TESTNAME" >/tmp/evalwt${SLOT:-}-demo1.log 2>&1; then res "A3 demo with the change: PASSES (change not demonstrated)"; DEMO_FAILS=0; else res "A3 demo with the change: fails (as claimed)"; DEMO_FAILS=1; fi
git apply -R "$PATCH"
if cargo test --offline -q ${DEMO_FLAGS:-} -p "$CRATE" --test "$TESTNAME" >/tmp/evalwt${SLOT:-}-demo2.log 2>&1; then res "A4 demo without the change: passes (as claimed)"; DEMO_OK=1; else res "A4 demo without the change: FAILS"; DEMO_OK=0; fi
rm -f "$DPATH"; git checkout -q -- .; git clean -qfd rlib 2>/dev/null
echo "  SUMMARY-A suite=[$SUITE] demo_fails_with=$DEMO_FAILS demo_passes_without=$DEMO_OK"
fi
[[ "$ONLY" == *B* ]] || exit 0
# B. detection
unset CARGO_TARGET_DIR
cd /repo || exit 2
if [ -n "$(git status --porcelain --untracked-files=no)" ]; then echo "/repo dirty; refusing"; exit 2; fi
git apply "$PATCH" || exit 2
trap 'git -C /repo checkout -- . ; git -C /repo clean -qfd rlib' EXIT
OUT="$(cd /verif && ./check "$PROP" quick 2>&1)"; RC=$?
res "B1 ./check $PROP quick: exit $RC $(echo "$OUT" | grep -E 'signature|MACHINERY' | head -1 | cut -c1-220)"
if [ $RC -eq 0 ] && [ $THOROUGH -eq 1 ]; then
  OUT="$(cd /verif && ./check "$PROP" thorough 2>&1)"; RC2=$?
  res "B2 ./check $PROP thorough: exit $RC2 $(echo "$OUT" | grep -E 'signature|MACHINERY' | head -1 | cut -c1-220)"
fi
echo "  SUMMARY-B check_quick_exit=$RC"
