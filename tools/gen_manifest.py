#!/usr/bin/env python3
"""Regenerates /verif/MANIFEST.json from the table below and validates it against the schema."""
import json, os, sys
ROOT = os.path.dirname(os.path.dirname(os.path.abspath(__file__)))

CHECKS = {}
def check(pid, engine, cat, text, note, technique, design_ref):
    CHECKS[pid] = dict(engine=engine, cat=cat, text=text, note=note, technique=technique, design_ref=design_ref)

check("C05", "dsu", "model_checking",
      "Reachable-state closure of the real DSU for every element count up to 7 (quick) / 9 (thorough): every un/par/check/size/reset/clone in every reached state against a partition model, with representative stability and the floor(log2) depth bound as state invariants. The search closes, so histories of any length over <= N elements are covered; sizes beyond N only through a fixed menu of directed adversarial union orders up to 2^16 (quick) / 2^20 (thorough) elements, which is labelled non-exhaustive.",
      "Trusted: the harness's partition model; the derived Debug rendering shows the complete DSU state. Bounded: element counts above N are covered only by the directed menu.",
      "explicit-state BFS to closure over the implementation's own states (parallel, full canonical keys), lockstep reference model",
      "DESIGN.md §4 C05")

PENDING = {
}

def main():
    props = [json.loads(l) for l in open(os.path.join(ROOT, "properties.jsonl"))]
    ids = [p["id"] for p in props]
    checks = []
    for pid in ids:
        if pid not in CHECKS: continue
        c = CHECKS[pid]
        checks.append({
            "property_id": pid,
            "quick_cmd": f"./check {pid} quick",
            "thorough_cmd": f"./check {pid} thorough",
            "evidence_file": f"/verif/evidence/{pid}.json",
            "replay_cmd_template": f"./check {pid} --replay {{path}}",
            "engine": c["engine"],
            "level_claimed": {"category": c["cat"], "text": c["text"], "design_ref": c["design_ref"]},
            "level_note": c["note"],
            "technique": c["technique"],
        })
    na = [{"property_id": pid, "reason": PENDING.get(pid, "no check registered yet: the engine for this property is still being built in this session (see DESIGN.md §4 for the planned check)")}
          for pid in ids if pid not in CHECKS]
    engines = {}
    for pid, c in CHECKS.items():
        engines.setdefault(c["engine"], []).append(pid)
    man = {
        "version": 1,
        "setup_cmd": "./check --setup",
        "hooks": {
            "guard": "cargo feature `verif` (rlib_segtree)",
            "enable": "the harness crates depend on /repo/rlib/<crate> by path and switch the feature on in their own Cargo.toml (features = [\"verif\"]); nothing in /repo enables it",
            "baseline_off_cmd": "cd /repo && cargo test --workspace --no-fail-fast --offline",
            "source_commits": json.load(open(os.path.join(ROOT, "tools", "hook_commits.json"))) if os.path.exists(os.path.join(ROOT, "tools", "hook_commits.json")) else [],
            "add_only": True,
        },
        "engines": [{"name": e, "path": f"/verif/harness/{e}" if e != "loom" else "/verif/harness-loom", "serves_properties": sorted(ps),
                     "kind_free_text": "Rust binary linking the crate under test from /repo by path; exhaustive enumeration on the real code against a reference model"} for e, ps in sorted(engines.items())],
        "checks": checks,
        "not_applicable": na,
        "notes": "Every check rebuilds its engine (cargo, offline, incremental) from /repo's working tree before running. Exit 0 = held (KNOWN-FINDING lines possible), 1 = VIOLATION line printed, 2 = machinery problem. known_findings.json is read-only at run time.",
    }
    out = os.path.join(ROOT, "MANIFEST.json")
    json.dump(man, open(out, "w"), indent=1)
    open(out, "a").write("\n")
    try:
        import jsonschema
        jsonschema.validate(man, json.load(open("/root/.vp/MANIFEST.schema.json")))
        print("MANIFEST.json valid;", len(checks), "checks;", len(na), "not_applicable")
    except ImportError:
        print("jsonschema not importable; wrote MANIFEST.json unvalidated")

if __name__ == "__main__":
    main()
