#!/usr/bin/env python3
"""Regenerates /verif/MANIFEST.json from the table below and validates it against the schema."""
import json, os, sys
ROOT = os.path.dirname(os.path.dirname(os.path.abspath(__file__)))

CHECKS = {}
def check(pid, engine, cat, text, note, technique, design_ref):
    CHECKS[pid] = dict(engine=engine, cat=cat, text=text, note=note, technique=technique, design_ref=design_ref)

check("C05", "dsu", "model_checking",
      "Reachable-state closure of the real DSU for every element count up to 7 (quick) / 8 (thorough): every un/par/check/size/reset/clone/clone_from (into targets with a different history) in every reached state against a partition model, with representative stability and the floor(log2) depth bound as state invariants. The search closes, so histories of any length over <= N elements are covered; sizes beyond N only through a fixed menu of 12 directed adversarial union orders up to 2^18 (quick) / 2^20 (thorough) elements run in a child process with a 256 KiB stack, labelled non-exhaustive.",
      "Trusted: the harness's partition model; the derived Debug rendering shows the complete DSU state. Bounded: element counts above N are covered only by the directed menu.",
      "explicit-state BFS to closure over the implementation's own states (parallel, full canonical keys), lockstep reference model",
      "DESIGN.md §4 C05")

check("C01", "seg", "model_checking",
      "Breadth-first search over the real Segtree's own node array (hook verif_nodes) with a plain-array model in lockstep. To CLOSURE (histories of any length over set/modify/ask/debug from all three constructors) for a finite non-commutative algebra (words over {0,1} with the four non-commuting functions as modifiers), a second one over Z3, a lazy item with a data-less modifier (M = ()), Sum<Z3>, Min/Max<u8>, SumAdd<Z4>, an arithmetic-progression item whose push gives the two children DIFFERENT modifiers (the right child's is offset by the left child's length), a Combinator of two NON-commutative parts, nested Combinators, and 27 'Pair' algebras (every built-in item of the crate in both positions of a Combinator with an INDEPENDENT non-commutative harness item that receives the same modifiers through a fixed translation, so modifiers that cancel in one part stay pending in the other); harness items and modifiers implement the std traits a library could start to require, with a NON-identity M::default() inside every alphabet, a zero-sized struct modifier, and elements / modifiers at the sentinel values of the type, for every n <= 6 (quick) / 7 (thorough). Bounded depth: the free algebra (decides 'every lawful item type', see DESIGN) n <= 9, the i64 built-ins and their Combinator nestings, elements at i64::MAX / i64::MIN, Min/Max over records compared by key only, and every algebra again with elements that carry a stale pending modifier (read back from another tree). Plus a size sweep: directed histories on the free algebra for every n <= 40 (130) and the neighbours of every power of two up to 1025 (4097).",
      "Trusted: the harness item algebras satisfy the monoid-action laws; the free-algebra homomorphism argument of DESIGN §4 C01. Bounded: n above the closed sizes; depth for the unbounded-value algebras.",
      "explicit-state BFS to closure over the implementation's node array, lockstep plain-array reference model",
      "DESIGN.md §4 C01")
check("C02", "seg", "model_checking",
      "Same state spaces as C01 (so every reachable configuration of pending modifiers), with lower_bound and lower_bound_rev applied at every position for every predicate of a monotone family (length thresholds incl. always-true/always-false, contains-1, two-1s, order-sensitive 1-then-0; value thresholds for the built-ins) in every reached state, and in the size sweep up to n = 1025 (4097). Judged: the returned index against the definition, every aggregate shown to the predicate must be the in-order merge of [l..=r'] for some r' >= l (never the empty aggregate, never the whole array), and the logical array is unchanged afterwards.",
      "Trusted: as C01. The predicate family is finite; monotone predicates outside it are not enumerated.",
      "explicit-state BFS to closure, searches as judged transitions, predicate-argument logging",
      "DESIGN.md §4 C02")
check("C06", "mint", "exploration",
      "Exhaustive over every modulus 2..=64: all ordered residue pairs for + - * / and assigning forms, neg, inv for every unit, new for every v in [-3M,3M] plus i64 boundary values, pow for e in 0..=2M plus boundary exponents, Display/Debug/Writable/Readable through the real Reader/Writer; for 11 large moduli (998244353, 1e9+7, around 2^30 and 2^31, and 46337/46341/65536/65537 where M^2 stops fitting 31/32 bits) all pairs of a 97-value residue boundary set (every 2^k, 2^k±1, M/2, M-1..M-3, sqrt M) and exponents 0..=128 and 2^k±1. The case list is executed under three deterministic schedules (each modulus alone on a fresh thread; all moduli ascending / descending on one thread) so that state leaking between generic instantiations shows; the same enumeration is repeated in a build with overflow checks; thorough adds the complete inverse tables of 998244353 and 2^31-1.",
      "Trusted: i128 reference arithmetic. Bounded: moduli between 65 and 2^31 other than the seven listed are not instantiated.",
      "exhaustive small-scope input enumeration against an i128 reference, two build profiles",
      "DESIGN.md §4 C06")
check("C07", "rational", "exploration",
      "Exhaustive over the box |a|,|b|,|c|,|d| <= 8 (quick) / 16 (thorough) for Rational<i32>, <i64>, <i128>, unreduced and negative-denominator spellings included: 41 families (new, + - * / in by-value, by-reference and both assigning forms, neg, floor, ceil, == and != by value and by reference, Hash, cmp, partial_cmp, the four ordering operators by value and by reference, max / min / clamp, antisymmetry; transitivity over all triples of distinct box values; sort, sort_unstable, is_sorted, binary_search and iterator max / min on all triples, on short sequences over smaller boxes and on rotations of all box values); all quadruples of a boundary set up to 2^30; and all pairs of 826 operands built from neighbouring Fibonacci / Lucas numbers <= 2^30 (Euclid chains up to 84 steps, longer than the bit width); overflowing cases computed exactly and skipped.",
      "Trusted: i128 reference with its own gcd. Bounded: values outside the box and the boundary set.",
      "exhaustive small-scope input enumeration against an exact reference",
      "DESIGN.md §4 C07")
check("C10", "geometry", "exploration",
      "Every circle x line, ordered circle pair, ordered line pair, circle x point and line x point on an integer lattice ([-4,4]^2, radii <= 6 quick; [-6,6]^2, radii <= 8 thorough) and on its images under three rational rotations, quarter shifts and integer scalings up to |coordinate| ~ 1e3, the kind of contact decided exactly in i128; every exact tangency (circle-line, circle-circle inside/outside, border points) fed again with the radius changed by ±1e-8, ±3e-7, ±1e-5 (just outside the library's tolerance, class decided by the sign); circle pairs of extreme radius ratio (R up to 640 against r down to 0.5; thorough 2560 / 0.25) at centre distances R±r±delta for delta from 1e-3 down to 1e-8, 9 rational directions, 4 centres, both argument orders; circle pairs of NEARLY EQUAL radii (difference 65*2^-k down to 6e-8) and nearly concentric pairs on an exact 2^-43 grid with generic 53-bit radii and centres up to 1e3, at internal tangency and delta on either side of it; a 'skew plane' in units of 2^-19 with 216 nearly axis-parallel lines (defining points 800 apart, 2^-7..2^-19 off axis) crossed with all lattice lines in both argument orders. Every returned point is checked against both primitives at 1e-7.",
      "Trusted: exact integer classification; f64 evaluation of the exact intersection formula for the point oracle. Bounded: rational lattices, not all real configurations.",
      "exhaustive enumeration of exact-rational configurations with integer-arithmetic oracle",
      "DESIGN.md §4 C10")
check("C11", "gcd", "exploration",
      "gcd/lcm for all pairs |a|,|b| <= 300 on all 12 integer types (all i8/u8 pairs) and all pairs of 156 boundary magnitudes up to the type maxima; egcd on the full cube |a|,|b|,|c| <= 40 (quick) / 80 (thorough) minus a=b=0 on i32/i64/i128 plus boundary triples up to 2^20; crt for all moduli 1..=64 (128) with all reduced residues plus boundary modulus pairs up to 2^20; thorough adds all u16 and i16 pairs. The same enumeration runs a second time in a build with debug assertions and overflow checks. A call that does not return is a violation (heartbeat per worker thread, observation-counting monitor, replay under the same limit).",
      "Trusted: table/Stein reference gcd, exact i128 verification of a*x+b*y=c and of the CRT answer. Out-of-domain (results that do not fit the type, lcm(0,0), egcd(0,0,c)) skipped and counted.",
      "exhaustive small-scope input enumeration against a number-theoretic reference, two build profiles",
      "DESIGN.md §4 C11")
check("C12", "bitset", "model_checking",
      "Closure BFS of the real Bitset<N> for N = 1, 2, 3 (thorough: also 10) over set/remove/flip at the word-boundary positions, clear, complement, clone, clone_from and a 'touch a bitset of another capacity' action, and for N = 64, 65, 130 over a reduced alphabet around the 4096-bit boundary, with test(i) for every i, count, iter_bits, ==, Display and Debug judged after every transition, and in every distinct state the iterator protocol of iter_bits (nth / skip / step_by / take / last / count / fold / size_hint from every partly consumed position around word boundaries, behaviour after exhaustion) against the same adaptors on the model's index list (closure-taking methods first, with a closure that panics after 4(64N+2) calls, so a method that never stops is a verdict without a clock); == and != on all ordered pairs of reached patterns and of a directed family (same bit offset in 2-4 words); every entry into the library is an observed section, a call that does not return becomes a violation; the whole tier runs a second time in a build with debug assertions and overflow checks; every pass starts on threads that first used bitsets of every other capacity (ascending and descending order), recorded in the replay; a bounded sweep with set/remove/flip at EVERY index; and & | ^ and their assigning forms on all ordered pairs (same object on both sides included) of the first 1500 reached sets per N.",
      "Trusted: Vec<bool> model. Bounded: positions outside the boundary alphabet are reached only by the depth-bounded sweep; operand pairs capped at 1500 states per N (reported).",
      "explicit-state BFS to closure with lockstep set model, exhaustive operand pairs",
      "DESIGN.md §4 C12")
check("C13", "sieve", "exploration",
      "For EVERY limit N in 0..=1500 (quick) / 0..=4096 (thorough) a Sieve::new(N) built on a thread of its own — as the first construction of that thread, and inside four construction schedules on one thread (ascending, descending, largest first, alternating) so that state surviving between constructions shows — (and its factorize iterator under every std way of consuming: fold, count, last, nth, skip, step_by, collect into sets, ... on a fresh iterator and after j next() calls, under a CPU-time watchdog) is compared for every n <= N (is_prime, min_prime, primes(), factorize) with trial division, plus N = 10^6 and 10^7 (thorough: 2^25) element by element, factorize included, against an independent Eratosthenes sieve; the whole check runs a second time in a build with overflow checks.",
      "Trusted: trial-division and Eratosthenes references (cross-checked against each other and against known prime counts).",
      "exhaustive enumeration of all limits and all arguments up to the bound",
      "DESIGN.md §4 C13")
check("C14", "rand", "exploration",
      "gen_from_u64 called directly with an adversarial raw alphabet for every (start,end) of all five range forms of i8/u8 and boundary ranges of the wider types (in-range and reachability), a grid of finite f64 ranges x 2273 raw values (start <= x < end), determinism over 66k seeds (dense, boundary and 903 structured 64-bit seeds: single bits, shifted small multipliers, low / high masks, top bytes, patterns), shuffle over 216000 enumerated seeds plus 110879 structured ones (permutation and reachability) (permutation, every order of <= 6 elements reached, counts within [mean/2, 2*mean]), and absence of any period <= max(n, 1024) in streams drawn through EVERY range form of every integer type over value sets of up to 2^16 values (full-width forms of the 8- and 16-bit types included), from dense seeds and from the structured seeds, exact period search. The whole enumeration runs a second time in a build with overflow checks (empty ranges skipped before the call).",
      "Trusted: the deterministic count criteria stand in for 'near-equal frequency' and 'not periodic'; signed `..b` with b <= 0 is treated as an empty (out-of-domain) range as in the crate's tests.",
      "exhaustive enumeration of ranges x raw outputs and of seeds, deterministic count criteria, two build profiles",
      "DESIGN.md §4 C14")
check("C15", "iter", "exploration",
      "Every mask of u8/i8/u16/i16 in both directions against the definition (order, membership, exact count, terminal element), bounded-popcount masks over boundary bit positions for the 32/64/128-bit and size types, every word over a 3-letter alphabet up to length 6 (7) and every permutation of <= 7 (8) elements for next_permutation / iter_permutations, and every grid up to 6x6 with every cell for the three neighbour iterators; for every one of these iterators (negative masks and multisets with repeats included) every std way of consuming (next to the end and beyond, size_hint, fold, for_each, count, last, sum, product, min, max, reduce, nth, skip, step_by, take + rest, all/any/find/position, collecting into Vec and sets, zip/chain/peekable/fuse; fresh and after j next() calls) against the same adaptor on the reference sequence, under a CPU-time watchdog that turns a non-returning call into a violation.",
      "Trusted: definitional references; the neighbour order oracle is the offset order shown in the crate's own tests.",
      "exhaustive input enumeration against definitional references",
      "DESIGN.md §4 C15")
check("C18", "f80", "exploration",
      "After the crate's f80_init() (as its header tells users): all ordered pairs of a 190-element boundary set of f64 bit patterns (zeros, subnormals, powers of two and neighbours, long carry chains, extremes, infinities, NaN) through + - * / and assigning forms, min, max, all relations, ==, partial_cmp; all members through neg, abs and the conversions; and every operation again on all ordered pairs of 300 (quick) / 2000 (thorough) full-width first-level results, compared bit for bit with a software model of x87 double-extended arithmetic. A 'dependent sequences' family runs every relation inside five loop shapes (run-time bounded for, unrolled, fold, while, conditional update) compiled at opt-level 3 without optimisation barriers, 21 M loops, so that a comparison the optimiser is wrongly allowed to hoist or merge shows. A violation is replayed on a fresh thread (from fninit) interleaved with every other f80 operation on the same operands, so that state leaking between calls (x87 register stack, control word) reproduces.",
      "Trusted: the software x87 model (validated against hardware on every arithmetic case it is compared on); x86-64 with 64-bit precision control (asserted at start).",
      "exhaustive pair enumeration over a boundary set and second-level chains against an exact soft-float reference",
      "DESIGN.md §4 C18")
check("C19", "tensor", "exploration",
      "All 340 (quick) / 780 (thorough) shapes of rank 1..4 with extents up to 4 / 5: every valid index (row-major offset, bijection, iteration order, single-element writes), every index out of range in exactly one dimension must panic for Index/IndexMut/get_index (incl. those whose flat offset stays inside the storage), constructors (new, from_vec, from_slice, read) reject zero extents and wrong lengths, write/read round trip through the real Writer/Reader (i32, u64, u128, i128 with every decimal digit structure, String), equality over all pairs of same-rank shapes with equal data, and clone() / clone_from() over all ordered pairs of same-rank shapes with the copy examined like a constructed tensor.",
      "Trusted: odometer reference for row-major order; the separator format oracle is the crate's own `output` test.",
      "exhaustive enumeration of shapes and indices",
      "DESIGN.md §4 C19")
check("C20", "lambda", "exploration",
      "Enumerates PROGRAMS: all macro shapes (31 capture patterns x 1..4 arguments x return type or none x both call syntaxes) with body template A, plus template D (a recursive call nested as an argument of a recursive call, and block arguments that mutate the captured state) for argument counts 1 and 4 template T (arguments of reference, slice, &mut, owned and bool types in every position), template K (27 + 20 declared capture-type classes at every capture position: containers, unsized, impl Trait, dyn Trait, references inside, non-Send/Sync, boxed closures, a rec_lambda closure as capture), template X (execution environments, each version in a child process: 1.7 M levels of recursion on a 1 GiB caller stack, four threads with own / shared closures, a closure moved to another thread, nesting), template E (26 classes of argument expressions whose type only the parameter fixes: literal-only expressions beyond i32 for every integer type, float literals, Default::default(), .into(), parse, collect, None, untyped closures) and template N (identifier collisions: the recursion name equal to an argument, capture, local, loop variable or std name; names equal to the macro's internal identifiers) — 2331 programs in quick, about 12000 in thorough — are generated as Rust source, compiled against /repo's macro in two builds (without and with debug assertions / overflow checks, because cfg(debug_assertions) inside the macro is decided in the invoking crate), and run on one thread of one process against the equivalent hand-written recursive fn on a grid of arguments, the closure created once and called four times with data mutated, dropped and recreated in between; a shape that fails to compile or differs in result or captured state is a violation.",
      "Trusted: the generator emits the same body text for both versions; rustc/cargo. Bounded: at most 4 captures and 4 arguments.",
      "exhaustive enumeration of macro invocation shapes, compiled and executed",
      "DESIGN.md §4 C20")

check("C17", "c17", "model_checking",
      "Two passes over the same 2-3 thread harness (each thread creates k nodes through from_item/insert_at and merges, splits, removes and collects on a treap it owns, then merges and splits three nodes with hand-set EQUAL priorities, then prints both treaps with {:?} and TreePrinter; a panic inside a thread's operations is a result). loom pass: every source file of the treap crate, copied at build time with thread_local!/std::sync/std::thread/statics rerouted to loom, explored under DPOR with preemption bound 2 (quick) / 3 and 3 threads (thorough), once with the main thread drawing a priority before spawning and once 'cold' (the threads' first creations are the first of the process); every unserialised outcome (per-thread priority streams + treap results) must be among the outcomes of the same bodies run with every operation under one lock, treap results and tie shapes must equal the solo run, and the renderings must equal those made again after all threads were joined; results that can be judged per execution end the exploration at the first bad one, and each exploration has a wall-time cap (reported). Miri pass: the same bodies free-running on real threads against the real crate; its vector-clock detector reports unsynchronised accesses (static mut, raw cells, Relaxed hand-made locks) and uses after free that the cooperative scheduler cannot see; with 2 and 9 threads (thorough up to 33), the larger configurations with a rendezvous after each thread's first node creation. The loom pass runs in two builds (optimised; debug assertions + overflow checks) and has a third exploration on hand-built path-shaped treaps of 70 (150) nodes per thread.",
      "Trusted: loom's model of the rerouted primitives; Miri's race detector (one free-running execution per configuration, schedule-independent for unordered access pairs). State shared through something the rewrite does not know is detected (first draw differs between executions) and ends in exit 2, not a verdict. Limits of loom's own run time (thread-local destructors touching loom objects, spin loops without yield) are recognised; the verdict then rests on the Miri pass alone and the evidence says so.",
      "stateless schedule exploration of the real code under loom (DPOR, preemption-bounded) + free-running Miri race detection",
      "DESIGN.md §4 C17")

check("C03", "treap", "model_checking",
      "Breadth-first search over states of up to 3 live treaps with at most N nodes where the EXPLORER chooses every priority rank (strictly between or tied with the live levels, also for insert_at: for a rank strictly between levels the live priorities are re-spaced to the two ends of the u32 range so that whatever the crate draws lands at that rank; for a rank tied with a level the draw is predicted by a per-thread copy of the crate's generator and the level moved onto it), so every weak ordering of priorities = every tree shape is realised; before every non-creating action the lowest and highest live priority are stretched to 0 and u32::MAX. Every action (new, merge of every ordered pair, split_at, split_by with an id predicate AND with every value predicate that is prefix-monotone on the current sequence, insert_at, remove_at, a lazy add-1 or assign-0 attached at the root, and in parts of their own a POSITION-DEPENDENT modification (x_i -> x_i + 1 + i, whose push gives the two children different tags), first/last/collect/size/root, merge with empty; nodes created by New and insert_at also with a stale pending tag) in every reached state against vector models; invariants in every state: collect() on a copy = model, root aggregate = fold, every node's cached size and aggregate = its own subtree. Closure for N <= 4 (quick) / 5 (thorough), all histories to depth 6 for N = 5 / 6. Beyond N nodes a directed sweep (labelled non-exhaustive) over tall and large shapes: 12 shape families (paths, zigzag, caterpillars, combs, balanced and mixed) of up to 1025 (2049) nodes built by struct literals, four pending-tag layouts, every operation at every / boundary positions, merges of all ordered pairs over a size set with four priority relations, judged with the same invariants. The exploration and a reduced sweep run a second time in a build with debug assertions and overflow checks.",
      "Trusted: the harness item is a lawful TreapItem (value in Z3, size, word aggregate, affine pending tag); vector model. Bounded: more than N live nodes / 3 live treaps.",
      "explicit-state BFS to closure over the real treap with explorer-chosen priorities, lockstep vector models",
      "DESIGN.md §4 C03")
check("C16", "treap", "model_checking",
      "(a) Heap order along every parent-child edge, consistently in one direction, is an invariant checked in every state of the C03 exploration (every priority ordering incl. ties and the extreme values 0 / u32::MAX, closure for N <= 4, bounded depth above). (b) Height: a directed menu of deterministic histories through the REAL priority generator (2139 cases in quick), each in a process of its own at a stated stream offset and thread ordinal — single-treap orders (sorted appends and front insertion to 10^6 elements, middle / one-third insertion, rotations, append/remove alternation), block concatenation with a Treap::new() per block, k treaps filled round-robin for 17 values of k (every treap probed), sliding windows, fixed-length queues, node-free operations interleaved, regrowth after removals, and histories whose node creations are spread over threads: every thread ordinal 0..4095 of a process building a treap, chunks built on 2..512 (1024) short-lived threads under three thread-lifetime policies (each worker spawned after the previous was joined, all workers kept alive, three resident threads) and four naming policies (unnamed, all workers the same name, distinct names, every second worker the common name) and concatenated in three orders, nodes created round-robin by 2..32 live threads and merged at the back / front / middle — height probed at every doubling against 5*log2(n+1)+20. Labelled non-exhaustive.",
      "Part (b) is an enumeration of a finite menu of deterministic executions, not of all histories; the probabilistic sentence of the property cannot be established by any bounded exploration and is used only to justify that a correct implementation never trips the bound on the menu.",
      "explicit-state BFS (heap-order invariant) + directed long histories for the height bound",
      "DESIGN.md §4 C16")

check("C08", "reader", "fault_enumeration",
      "Every execution is (input bytes, script of reader calls, delivery plan) where the harness's Read object owns every answer: for inputs up to 10 (quick) / 13 (thorough) bytes built from tokens x separators (CRLF, lone CR, blank lines, unterminated last line) ALL 2^(L-1) chunkings, plus every placement of one or two ErrorKind::Interrupted among the read calls for the shorter ones; for extreme values of all 12 integer types, tuples of arity 2..8 and multi-line text every placement of up to two deviations (short read / Interrupted) and byte-at-a-time delivery; for inputs as long as the observed internal buffer (65536) the interesting bytes (minus sign + digits, CR LF, whitespace run, end of input) at every offset around the boundary under 21 plans. Plus every byte string over {digit, space, CR, LF} up to length 7 (8) under all chunkings (CR runs before LF, at the end, between tokens) and CR runs around the buffer boundary; inputs of several buffers (a token or line of 1x..5x the buffer +-1 followed by up to two buffers of further lines) under 19 deliveries. Scripts: typed token reads in several widths per token, String, char, tuples, read_vec, read_line xk, read_lines, is_eof interposed, mixed. Every delivery must return exactly what the default delivery of the same bytes returns (all inputs), and that common result must equal an independent reference parser of the whole byte string (inputs for which the property defines the answer).",
      "Trusted: the reference parser (tokens = maximal non-whitespace runs; lines end at LF or CRLF; a lone CR belongs to the line — the last only used for the delivery-independence oracle). Not covered: non-ASCII input, error kinds other than Interrupted, scripts asking for tokens that are not there.",
      "deviation-bounded exhaustive enumeration of environment answers (all chunkings / all placements of <= 2 faults) on the real Reader",
      "DESIGN.md §4 C08")
check("C09", "writer", "model_checking",
      "The writer's only state is the fill level of its buffer (size observed at run time: 65536). From ALL 65537 fill levels (thorough; quick: [0,64] ∪ [B-64,B] ∪ every 1021st) one or two write actions from an alphabet of 263 (every integer type at 0/±1/MIN/MAX, every rendered length 1..40, chars, &str and String of lengths around 0, 45, B and 2B, vectors (also longer than the buffer), nested vectors, tuples of arity 2..8, the out!/outln! macros) followed by flush or drop, also through the public Writable::write trait method, and with the writer going out of scope by unwinding (user code panics after the writes, inside catch_unwind); sink deviations (partial acceptance, Interrupted) enumerated up to two per execution; every value of i8/u8/i16/u16 (thorough: of u32/i32) and boundary values of the wide types rendered against to_string(). Sink bytes must equal the concatenated std renderings, nothing after flush is missing, and the real Reader reads the values back. The same enumeration runs in a second binary built with debug assertions (flush per write); both must agree.",
      "Trusted: std's to_string/format as the rendering reference. Sinks never return Ok(0) and no error kind other than Interrupted. Histories longer than fill + two writes are covered only through the fill level they reach (the writer has no other state).",
      "reachable-state enumeration (all fill levels x write alphabet) with bounded sink-fault enumeration, two build profiles",
      "DESIGN.md §4 C09")

check("C04", "fft", "model_checking",
      "The state of an FFT object that can influence a later call is the size of its twiddle / bit-reversal tables. ALL states 4..2^11 (quick) / 2^13 (thorough), each reached both by update_n and by a large multiply, x ALL calls of the alphabet: every length pair of 0..40 ∪ {63..65,127..129} (thorough 0..130 and around 2^8..2^10) x 12 coefficient pattern pairs x magnitudes {1, sqrt(Amax), Amax} on the envelope boundary, for f64 and f32; all vectors over {-A,-1,0,1,A} for lengths <= 4; envelope corners with long vectors up to 65536 x 65536 (transform size 2^17; thorough 2^19); all call histories of length <= 3 over an 8-call alphabet that includes a 70000-long multiply; every public constructor (new, Default, clones) and table sizes 1 and 2 as object states; operands passed as two views of ONE buffer (all pairs of windows: same slice, prefixes, suffixes, nested, overlapping, adjacent); histories of up to 3 calls that refill the caller's buffers in place between calls of every public method. Every call runs on a CLONE of the grown object and is judged against the schoolbook convolution (exact, i128 / parallel i64), against a fresh object, repeated on the same object, through multiply_into on a pre-filled destination (also one holding values beyond 2^53), and through fft x fft -> fft_inv / fft_inv_into (also at transform size 1).",
      "Envelope read as max|coef|^2 * max(len a, len b) <= 1e12 (f64) / 1e3 (f32): inside the property's formula and inside the crate's published table also for unequal lengths (see DESIGN §4 C04 for why min(len) was a false alarm). Coefficient vectors are boundary-magnitude families and a 5-letter alphabet, not all of Z^n (exhaustive: false).",
      "all object states x all calls of a finite alphabet, exact integer reference; bounded call histories",
      "DESIGN.md §4 C04")

PENDING = {
}

def main():
    props = [json.loads(l) for l in open(os.path.join(ROOT, "properties.jsonl"))]
    ids = [p["id"] for p in props]
    checks = []
    for pid in ids:
        if pid not in CHECKS: continue
        c = CHECKS[pid]
        checks.append({
            "property_id": pid,
            "quick_cmd": f"./check {pid} quick",
            "thorough_cmd": f"./check {pid} thorough",
            "evidence_file": f"/verif/evidence/{pid}.json",
            "replay_cmd_template": f"./check {pid} --replay {{path}}",
            "engine": c["engine"],
            "level_claimed": {"category": c["cat"], "text": c["text"], "design_ref": c["design_ref"]},
            "level_note": c["note"],
            "technique": c["technique"],
        })
    na = [{"property_id": pid, "reason": PENDING.get(pid, "no check registered yet: the engine for this property is still being built in this session (see DESIGN.md §4 for the planned check)")}
          for pid in ids if pid not in CHECKS]
    engines = {}
    for pid, c in CHECKS.items():
        engines.setdefault(c["engine"], []).append(pid)
    man = {
        "version": 1,
        "setup_cmd": "./check --setup",
        "hooks": {
            "guard": "cargo feature `verif` (rlib_segtree)",
            "enable": "the harness crates depend on /repo/rlib/<crate> by path and switch the feature on in their own Cargo.toml (features = [\"verif\"]); nothing in /repo enables it",
            "baseline_off_cmd": "cd /repo && cargo test --workspace --no-fail-fast --offline",
            "source_commits": json.load(open(os.path.join(ROOT, "tools", "hook_commits.json"))) if os.path.exists(os.path.join(ROOT, "tools", "hook_commits.json")) else [],
            "add_only": True,
        },
        "engines": [{"name": e, "path": f"/verif/harness/{e}" if e != "loom" else "/verif/harness-loom", "serves_properties": sorted(ps),
                     "kind_free_text": "Rust binary linking the crate under test from /repo by path; exhaustive enumeration on the real code against a reference model"} for e, ps in sorted(engines.items())],
        "checks": checks,
        "not_applicable": na,
        "notes": "Every check rebuilds its engine (cargo, offline, incremental) from /repo's working tree before running. Exit 0 = held (KNOWN-FINDING lines possible), 1 = VIOLATION line printed, 2 = machinery problem. known_findings.json is read-only at run time.",
    }
    out = os.path.join(ROOT, "MANIFEST.json")
    json.dump(man, open(out, "w"), indent=1)
    open(out, "a").write("\n")
    try:
        import jsonschema
        jsonschema.validate(man, json.load(open("/root/.vp/MANIFEST.schema.json")))
        print("MANIFEST.json valid;", len(checks), "checks;", len(na), "not_applicable")
    except ImportError:
        print("jsonschema not importable; wrote MANIFEST.json unvalidated")

if __name__ == "__main__":
    main()
