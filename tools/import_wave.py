#!/usr/bin/env python3
"""import_wave.py <wave> <dir-with-Cxx/OUT>: copies sub-agent outputs to seeded/Cxx-<wave>-k (patch.diff, demo.rs, demo_path.txt, meta.agent.json)."""
import os,shutil,glob,sys
wave,src=sys.argv[1],sys.argv[2]
n=0
for d in sorted(glob.glob(f'{src}/C*/OUT')):
    prop=d.split('/')[-2]
    for k,suf in enumerate(['','2','3'],1):
        p=f'{d}/patch{suf}.diff'
        if not (os.path.exists(p) and os.path.exists(f'{d}/demo{suf}.rs') and os.path.exists(f'{d}/demo{suf}_path.txt')): continue
        out=f'/verif/seeded/{prop}-{wave}-{k}'
        if os.path.exists(out+'/patch.diff'): continue
        os.makedirs(out,exist_ok=True)
        shutil.copy(p,out+'/patch.diff'); shutil.copy(f'{d}/demo{suf}.rs',out+'/demo.rs'); shutil.copy(f'{d}/demo{suf}_path.txt',out+'/demo_path.txt')
        if os.path.exists(f'{d}/meta{suf}.json'): shutil.copy(f'{d}/meta{suf}.json',out+'/meta.agent.json')
        print(out); n+=1
print(n,'imported')
