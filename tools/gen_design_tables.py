#!/usr/bin/env python3
"""Rewrites the generated blocks of DESIGN.md (between <!-- gen:NAME --> and <!-- /gen:NAME -->) from evidence/ and seeded/."""
import json,glob,os,re
ROOT=os.path.dirname(os.path.dirname(os.path.abspath(__file__)))
def evidence_table():
    rows=["| id | tier | level | wall s | states | transitions | evaluations | distinct non-trivial |","|---|---|---|---|---|---|---|---|"]
    for f in sorted(glob.glob(ROOT+'/evidence/C*.json')):
        e=json.load(open(f)); c=e['coverage']
        g=lambda k: f"{c[k]:,}" if isinstance(c.get(k),int) else '—'
        rows.append(f"| {e['property_id']} | {e['tier']} | {e['level']} | {e['wall_s']} | {g('states')} | {g('transitions')} | {g('evaluations')} | {g('distinct_nontrivial')} |")
    return "\n".join(rows)
def seed_table(wave):
    rows=["| seed | change (agent's summary, truncated) | first attempt | signature reported by the quick check now |","|---|---|---|---|"]
    for d in sorted(glob.glob(ROOT+f'/seeded/*-{wave}-*')):
        m=json.load(open(d+'/meta.json')); det=m.get('detection',{})
        fa=det.get('first_attempt_before_strengthening')
        if isinstance(fa,dict):
            ex=fa.get('exit'); fa='MISSED' if ex==0 else ('—' if ex in (None,'?') else f'exit {ex} (no verdict)')
        else: fa='caught'
        s=(m.get('summary') or '').replace('\n',' ').replace('|','/')[:120]
        sig=(det.get('first_signature') or '').replace('|','/')[:100]
        rows.append(f"| {os.path.basename(d)} | {s} | {fa} | `{sig}` |")
    return "\n".join(rows)
blocks={'evidence':evidence_table,'seeds_w1':lambda:seed_table('w1'),'seeds_w2':lambda:seed_table('w2'),'seeds_w3':lambda:seed_table('w3'),'seeds_w4':lambda:seed_table('w4'),'seeds_w5':lambda:seed_table('w5'),'seeds_w6':lambda:seed_table('w6'),'seeds_w7':lambda:seed_table('w7'),'seeds_w8':lambda:seed_table('w8')}
p=ROOT+'/DESIGN.md'; s=open(p).read()
for name,fn in blocks.items():
    pat=re.compile(r'(<!-- gen:%s -->\n).*?(<!-- /gen:%s -->)'%(name,name),re.S)
    if pat.search(s): s=pat.sub(lambda m: m.group(1)+fn()+"\n"+m.group(2),s)
open(p,'w').write(s)
print("DESIGN.md tables regenerated")
