#!/usr/bin/env python3
"""Builds seeded/<id>/meta.json for one wave from the sub-agent's own description (meta.agent.json) and the
logs of tools/eval_seed.sh (part A: validity in a scratch worktree, part B: quick check on /repo).

usage: make_seed_meta.py <wave> --a <A logs…> --first <B logs of the first attempt…> --final <B logs now…>
Later logs override earlier ones."""
import json, os, re, sys, glob

ROOT = os.path.dirname(os.path.dirname(os.path.abspath(__file__)))


def seed_id(header, wave):
    # "== seed C18/OUT patch2 for C18 (crate …)"  or  "== seed seeded/C16-w3-1 patch for C16 (crate …)"
    m = re.match(r"== seed (\S+) patch(\d?) for (C\d\d)", header)
    if not m:
        return None
    where, suf, prop = m.groups()
    if "-w" in where:
        return os.path.basename(where)
    return f"{prop}-{wave}-{suf or 1}"


def parse(files, wave):
    out = {}
    for f in files:
        cur = None
        for line in open(f, errors="replace"):
            line = line.rstrip("\n")
            if line.startswith("== seed"):
                cur = seed_id(line, wave)
                if cur:
                    out[cur] = []
            elif cur and line.startswith("  "):
                out[cur].append(line.strip())
    return out


def b_result(lines):
    for l in lines:
        m = re.match(r"B1 \./check (C\d\d) quick: exit (\d+)\s*(.*)", l)
        if m:
            sig = m.group(3)
            sig = re.sub(r"^signature:\s*", "", sig)
            return {"check": f"./check {m.group(1)} quick", "exit": int(m.group(2)), "first_signature": sig or None}
    return None


def main():
    wave = sys.argv[1]
    groups = {"--a": [], "--first": [], "--final": []}
    cur = None
    for a in sys.argv[2:]:
        if a in groups:
            cur = a
        else:
            groups[cur].extend(glob.glob(a))
    A = parse(groups["--a"], wave)
    first = parse(groups["--first"], wave)
    final = parse(groups["--final"], wave)
    for d in sorted(glob.glob(f"{ROOT}/seeded/*-{wave}-*")):
        sid = os.path.basename(d)
        agent = {}
        if os.path.exists(d + "/meta.agent.json"):
            try:
                agent = json.load(open(d + "/meta.agent.json"))
            except Exception as e:
                agent = {"unparsed": str(e)}
        old = json.load(open(d + "/meta.json")) if os.path.exists(d + "/meta.json") else {}
        meta = {
            "property": sid.split("-")[0],
            "origin": old.get("origin") or f"independent sub-agent (wave {wave[1:]}: given only the property text, the list of mechanisms earlier waves had used, and a scratch worktree; asked for a different mechanism)",
            "summary": agent.get("summary") or agent.get("change") or agent.get("what") or old.get("summary"),
            "needs_to_manifest": agent.get("needs_to_manifest") or agent.get("trigger") or agent.get("needs") or old.get("needs_to_manifest"),
            "files_changed": agent.get("files_changed") or agent.get("files") or old.get("files_changed"),
            "why_existing_tests_pass": agent.get("why_existing_tests_pass") or agent.get("why_suite_passes") or old.get("why_existing_tests_pass"),
            "confirmed_by_me": {"how": "tools/eval_seed.sh part A in a scratch worktree under /tmp (since removed)", "result": A.get(sid) or (old.get("confirmed_by_me") or {}).get("result"), "note": (old.get("confirmed_by_me") or {}).get("note")},
        }
        fin = b_result(final.get(sid, [])) if sid in final else None
        fst = b_result(first.get(sid, [])) if sid in first else None
        det = dict(old.get("detection") or {})
        if fin:
            det.update(fin)
        if fst is not None:
            det["first_attempt_before_strengthening"] = "caught by the check as it stood" if fst["exit"] == 1 else fst
        elif "first_attempt_before_strengthening" not in det and fin:
            det["first_attempt_before_strengthening"] = "caught by the check as it stood" if fin["exit"] == 1 else fin
        meta["detection"] = det
        for k in ("rebased", "status", "note"):
            if k in old:
                meta[k] = old[k]
        json.dump(meta, open(d + "/meta.json", "w"), indent=1)
        print(sid, "A:", "ok" if A.get(sid) and "demo_fails_with=1 demo_passes_without=1" in " ".join(A[sid]) else "?", "final exit:", det.get("exit"))


main()
