#!/bin/bash
# Parallel evaluation of seeded changes (development aid only; the registered checks always run /verif against
# /repo itself).  A lane is a scratch worktree of /repo plus a copy of /verif whose path dependencies point at
# that worktree, all under /tmp/lane<i>; lanes are removed with `lanes.sh teardown`.
#
#   lanes.sh setup <N>                 create N lanes at /repo's HEAD and pre-build their engines
#   lanes.sh refresh                   copy /verif's current sources into every lane again (no rebuild of deps)
#   lanes.sh run <log> <seed-dir>...   part B of eval_seed.sh for every seed, properties spread over the lanes
#   lanes.sh teardown
set -u
cmd="${1:-}"; shift || true
lanes() { ls -d /tmp/lane[0-9]* 2>/dev/null; }

copy_verif() { # $1 = lane dir
  local L="$1"
  rsync -a --delete --exclude target --exclude .git --exclude replays --exclude evidence --exclude seeded --exclude mutants /verif/ "$L/verif/"
  mkdir -p "$L/verif/evidence" "$L/verif/replays"
  grep -rlI "/repo" "$L/verif/check" "$L/verif/harness" "$L/verif/harness-loom" --exclude-dir=target 2>/dev/null | xargs -r sed -i "s#/repo#$L/repo#g"
}

case "$cmd" in
setup)
  N="${1:-4}"
  for i in $(seq 0 $((N-1))); do
    L=/tmp/lane$i
    [ -d "$L/repo" ] && git -C /repo worktree remove --force "$L/repo" 2>/dev/null
    rm -rf "$L"; mkdir -p "$L"
    git -C /repo worktree add --detach "$L/repo" HEAD >/dev/null 2>&1 || { echo "cannot create worktree for lane $i"; exit 2; }
    copy_verif "$L"
  done
  for L in $(lanes); do (cd "$L/verif" && ./check --setup >"$L/setup.log" 2>&1; echo "lane $L setup exit $?") & done; wait
  ;;
refresh)
  for L in $(lanes); do
    (cd "$L/repo" && git checkout -q --detach "$(git -C /repo rev-parse HEAD)" && git checkout -q -- .)
    copy_verif "$L"
  done
  ;;
run)
  LOG="$1"; shift
  LS=($(lanes)); N=${#LS[@]}; [ "$N" -gt 0 ] || { echo "no lanes; run setup first"; exit 2; }
  # group seeds by property, deal the properties to the lanes (largest groups first)
  declare -A GROUP
  for d in "$@"; do p=$(basename "$d" | cut -d- -f1); GROUP[$p]="${GROUP[$p]:-} $(realpath "$d")"; done
  order=$(for p in "${!GROUP[@]}"; do echo "$(echo ${GROUP[$p]} | wc -w) $p"; done | sort -rn | awk '{print $2}')
  declare -a LOAD; declare -a WORK; for i in $(seq 0 $((N-1))); do LOAD[$i]=0; WORK[$i]=""; done
  for p in $order; do
    best=0; for i in $(seq 0 $((N-1))); do [ "${LOAD[$i]}" -lt "${LOAD[$best]}" ] && best=$i; done
    WORK[$best]="${WORK[$best]} ${GROUP[$p]}"; LOAD[$best]=$(( ${LOAD[$best]} + $(echo ${GROUP[$p]} | wc -w) ))
  done
  for i in $(seq 0 $((N-1))); do
    L=${LS[$i]}
    (
      for d in ${WORK[$i]}; do
        p=$(basename "$d" | cut -d- -f1)
        echo "== seed seeded/$(basename "$d") patch for $p (lane $i)"
        if [ ! -f "$d/patch.diff" ]; then echo "  B0 no patch.diff (obsolete seed)"; continue; fi
        cd "$L/repo" && git checkout -q -- . && git clean -qfd rlib && if ! git apply "$d/patch.diff" 2>/dev/null; then echo "  B0 patch does not apply"; continue; fi
        OUT="$(cd "$L/verif" && ./check "$p" quick 2>&1)"; RC=$?
        echo "  B1 ./check $p quick: exit $RC $(echo "$OUT" | grep -E 'signature|MACHINERY' | head -1 | cut -c1-220)"
        echo "  SUMMARY-B check_quick_exit=$RC"
        cd "$L/repo" && git checkout -q -- . && git clean -qfd rlib
      done
    ) > "$LOG.lane$i" 2>&1 &
  done
  wait
  cat "$LOG".lane* > "$LOG"; rm -f "$LOG".lane*
  echo "done: $(grep -c SUMMARY-B "$LOG") seeds, $(grep -c 'check_quick_exit=1' "$LOG") caught"
  ;;
teardown)
  for L in $(lanes); do git -C /repo worktree remove --force "$L/repo" 2>/dev/null; rm -rf "$L"; done
  git -C /repo worktree prune
  ;;
*) echo "usage: lanes.sh setup <N> | refresh | run <log> <seed-dir>... | teardown"; exit 2 ;;
esac
