#!/usr/bin/env python3
"""benign_lanes.py <dir with benign_<crate>_<k>.diff> <tag>: lays the patches out as pseudo seed dirs (one per
patch and property of its crate) under /tmp/benignrun/<tag>/ and prints them, for `lanes.sh run`."""
import os,sys,glob,shutil,re
src,tag=sys.argv[1],sys.argv[2]
PROPS={'segtree':['C01','C02'],'dsu':['C05'],'treap':['C03','C16','C17'],'fft':['C04'],'mint':['C06'],'rational':['C07','C11'],'gcd':['C11','C07'],
'io':['C08','C09','C06','C19'],'reader':['C08'],'writer':['C09'],'tensor':['C19'],'geometry':['C10'],'bitset':['C12'],'sieve':['C13'],'iter':['C15'],
'rand':['C14','C16','C03'],'f80':['C18'],'lambda':['C20']}
out=f'/tmp/benignrun/{tag}'
shutil.rmtree(out,ignore_errors=True)
for f in sorted(glob.glob(src+'/*.diff')):
    m=re.match(r'(?:[A-Z0-9]+-)?(?:benign|caveat)_([a-z0-9]+)_(.+)\.diff',os.path.basename(f))
    if not m: print('skip',f,file=sys.stderr); continue
    crate=m.group(1)
    for p in PROPS.get(crate,[]):
        d=f'{out}/{p}-{tag}-{crate}_{m.group(2)}'
        os.makedirs(d); shutil.copy(f,d+'/patch.diff'); print(d)
