#!/bin/bash
# usage: tools/run_all.sh quick|thorough   — runs every registered check on the current tree, validates evidence
cd /verif || exit 2
T="${1:-quick}"; bad=0
for p in $(python3 -c "import json;print(' '.join(c['property_id'] for c in json.load(open('MANIFEST.json'))['checks']))"); do
  s=$(date +%s.%N); out=$(./check $p $T 2>&1); rc=$?; e=$(date +%s.%N)
  printf "%s rc=%s %.1fs %s\n" $p $rc $(echo "$e - $s" | bc) "$(echo "$out" | grep -E 'VIOLATION|MACHINERY|KNOWN' | head -2 | cut -c1-160)"
  [ $rc -ne 0 ] && bad=1
done
python3-vt tools/validate_evidence.py | grep -v "^ok" ; exit $bad
