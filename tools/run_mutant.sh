#!/bin/bash
# usage: run_mutant.sh <patch.diff> <Cxx> [crate-for-repo-tests ...]
# Applies the patch to /repo, runs the repo's own tests of the named crates (must pass), runs the quick
# check (must print VIOLATION), and ALWAYS reverts /repo.
set -u
P="$(realpath "$1")"; PROP="$2"; shift; shift
cd /repo || exit 2
if [ -n "$(git status --porcelain --untracked-files=no)" ]; then echo "/repo has uncommitted changes; refusing"; exit 2; fi
if ! git apply "$P"; then echo "patch does not apply"; exit 2; fi
trap 'git -C /repo checkout -- . ; git -C /repo clean -qfd rlib' EXIT
TESTS=ok
for c in "$@"; do
  if ! cargo test --offline -q -p "$c" >/tmp/mutant_test.log 2>&1; then TESTS="FAIL($c)"; fi
done
OUT="$(cd /verif && ./check "$PROP" quick 2>&1)"; RC=$?
echo "mutant=$(basename "$P") property=$PROP repo_tests=$TESTS check_exit=$RC"
echo "$OUT" | grep -E "VIOLATION|signature|MACHINERY|KNOWN" | head -4
echo "$OUT" | grep -A1 "signature" | tail -1 | cut -c1-300
